#!/bin/bash
# Determinism proof: every check, several VERIF_SEED values, each executed in fresh processes with
# 1 and with 16 harness workers (and twice with 16); the batch hash (hash over every run's full
# history hash, in index order) and the evidence counters must be identical.
# usage: selftest/determinism.sh [seeds...]      (default seeds: 1 2 3 20260917)
set -u
HERE="$(cd "$(dirname "${BASH_SOURCE[0]}")/.." && pwd)"
SEEDS="${*:-1 2 3 20260917}"
export VERIF_DIR="$HERE" VERIF_CLI_BIN="$HERE/sim/target-cli/release/packing"
( cd "$HERE" && ./setup.sh ) >/dev/null 2>&1 || { echo "setup failed"; exit 2; }
declare -A RUNS=( [C01]=400 [C04]=400 [C05]=3000 [C06]=3000 [C07]=1525 [C08]=400 [C11]=300 [C18]=8 [C19]=3000 [C20]=2000 [C09]=8 [C10]=24 )
fail=0; total=0
for id in C01 C04 C05 C06 C07 C08 C09 C10 C11 C18 C19 C20; do
  case $id in C09|C10) BIN=simrep;; *) BIN=simcheck;; esac
  for seed in $SEEDS; do
    h=""
    for w in 16 1 16; do
      out=$(VERIF_WORKERS=$w "$HERE/sim/target/release/$BIN" $id --tier quick --seed $seed --runs ${RUNS[$id]} 2>&1 | grep '^DONE')
      hh=$(echo "$out" | sed -n 's/.*batch_hash=\([0-9a-f]*\).*/\1/p')
      vv=$(echo "$out" | sed -n 's/.*violations=\([0-9]*\).*/\1/p')
      if [ -z "$hh" ]; then echo "FAIL $id seed=$seed workers=$w: no result"; fail=$((fail+1)); continue; fi
      if [ -z "$h" ]; then h="$hh"; elif [ "$h" != "$hh" ]; then echo "FAIL $id seed=$seed workers=$w: batch hash $hh != $h"; fail=$((fail+1)); fi
      if [ "$vv" != "0" ]; then echo "ALARM $id seed=$seed: $vv violations on the unchanged tree"; fail=$((fail+1)); fi
      total=$((total+1))
    done
    echo "ok $id seed=$seed batch_hash=$h (3 fresh processes, workers 16/1/16, ${RUNS[$id]} runs each)"
  done
done
echo "determinism: $total executions, $fail failures"
[ $fail -eq 0 ]
