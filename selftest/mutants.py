#!/usr/bin/env python3
"""Sensitivity self-test: apply a source mutation to /repo (working tree only), run the quick
check of the property it should break, expect exit 1 + a VIOLATION line, then restore /repo with
`git checkout -- .`.  Nothing is ever committed to /repo by this script.

usage: selftest/mutants.py [--only NAME_SUBSTRING] [--prop C06] [--tests]
  --tests additionally runs the repo's own test suite on each mutant (must stay green for the
  mutant to count as 'realistic')."""
import subprocess, sys, os, time, json

REPO = "/repo"
VERIF = os.path.dirname(os.path.dirname(os.path.abspath(__file__)))

# (property, name, file, old, new)
MUTANTS = [
    ("C06", "reset-wrong-index", "src/optimisation.rs",
     ".get(basis_index)\n", ".get((basis_index + 1) % basis.len())\n"),
    ("C07", "no-reset-on-invalid", "src/optimisation.rs",
     "                    None => {\n                        basis",
     "                    None if state.score().is_none() => { loop_rejections += 1; score_current }\n                    None => {\n                        basis"),
    ("C06", "stale-old-value", "src/basis.rs",
     "        self.old = self.get_value();\n        self.value.set_value(match new_value {",
     "        if self.old == self.min { self.old = self.get_value(); }\n        self.value.set_value(match new_value {"),
    ("C07", "wrong-sign", "src/optimisation.rs",
     "f64::exp((new - old) / kt)", "f64::exp((old - new) / kt)"),
    ("C07", "double-kt", "src/optimisation.rs",
     "f64::exp((new - old) / kt)", "f64::exp((new - old) / (2. * kt))"),
    ("C07", "accept-invalid-sometimes", "src/optimisation.rs",
     "            // If the first two tests fail, then the score is rejected.\n            _ => None,",
     "            None if threshold < 0.001 => Some(old),\n            _ => None,"),
    ("C07", "strict-tie", "src/optimisation.rs",
     "Some(new_score) if self.test_acceptance(threshold, new_score, old, kt) => {",
     "Some(new_score) if new_score != old && self.test_acceptance(threshold, new_score, old, kt) => {"),
    ("C18", "cool-every-step", "src/optimisation.rs",
     "            rejections += loop_rejections;\n            kt *= self.kt_ratio;",
     "            rejections += loop_rejections;"),
    ("C18", "ratio-not-subtracted", "src/optimisation.rs",
     "(Some(ratio), _) => f64::max(1. - ratio, 0.),", "(Some(ratio), _) => f64::max(ratio, 0.),"),
    ("C18", "exponent-steps-again", "src/optimisation.rs",
     "1. / cooling_steps as f64", "1. / self.steps as f64"),
    ("C19", "no-cap", "src/optimisation.rs",
     "                step_ratio = f64::min(step_ratio, 1.);\n", ""),
    ("C19", "full-range-sample", "src/basis.rs",
     "rng.gen_range(-0.5, 0.5)", "rng.gen_range(-1.0, 1.0)"),
    ("C20", "drop-last-loop", "src/optimisation.rs",
     "for loop_counter in 1..=(self.steps / self.inner_steps) {",
     "for loop_counter in 1..(self.steps / self.inner_steps).max(1) + if self.steps % self.inner_steps == 0 { 1 } else { 0 } {"),
    ("C20", "converge-after-4", "src/optimisation.rs",
     "if convergence_count > 5 {", "if convergence_count > 4 {"),
    ("C20", "zero-div-again", "src/optimisation.rs",
     "let inner_steps = u64::max(1, u64::min(self.inner_steps, self.steps));",
     "let inner_steps = u64::min(self.inner_steps, self.steps);"),
    ("C05", "nan-factor-again", "src/optimisation.rs",
     "            (None, Some(_)) if self.kt_start == 0. => 1.,\n", ""),
    ("C05", "accept-small-decrease", "src/optimisation.rs",
     "Some(new_score) if new_score > old => Some(new_score),",
     "Some(new_score) if new_score > old - 1e-9 * old.abs() => Some(new_score),"),
    ("C08", "free-angle-orthorhombic", "src/cell.rs",
     "            CrystalFamily::Orthorhombic => {\n                basis.push(StandardBasis::new(&self.ratio, 0.1, self.ratio.get_value()));\n",
     "            CrystalFamily::Orthorhombic => {\n                basis.push(StandardBasis::new(&self.ratio, 0.1, self.ratio.get_value()));\n                basis.push(StandardBasis::new(&self.angle, PI / 6., PI / 2.));\n"),
    ("C08", "wider-site-bounds", "src/site.rs",
     "basis.push(StandardBasis::new(&self.y, -0.5, 0.5));", "basis.push(StandardBasis::new(&self.y, -0.5, 0.55));"),
    ("C08", "ratio-lower-bound", "src/cell.rs",
     "CrystalFamily::Monoclinic => {\n                basis.push(StandardBasis::new(&self.ratio, 0.1, self.ratio.get_value()));",
     "CrystalFamily::Monoclinic => {\n                basis.push(StandardBasis::new(&self.ratio, 0.05, self.ratio.get_value()));"),
    ("C08", "accept-nan-again", "src/optimisation.rs",
     "            Some(new_score) if !new_score.is_finite() => None,\n", ""),
    ("C04", "transform-order", "src/site.rs",
     ".map(move |sym| sym * transform)", ".map(move |sym| transform * sym)"),
    ("C04", "free-angle-orthorhombic", "src/cell.rs",
     "            CrystalFamily::Orthorhombic => {\n                basis.push(StandardBasis::new(&self.ratio, 0.1, self.ratio.get_value()));\n",
     "            CrystalFamily::Orthorhombic => {\n                basis.push(StandardBasis::new(&self.ratio, 0.1, self.ratio.get_value()));\n                basis.push(StandardBasis::new(&self.angle, PI / 6., PI / 2.));\n"),
    ("C04", "p2mg-table-typo", "src/wallpaper.rs",
     '"x,y", "-x, -y", "-x+1/2, y", "x+1/2, -y"', '"x,y", "-x, -y", "-x+1/2, y", "x, -y+1/2"'),
    ("C01", "range-b-uses-a", "src/state/packed.rs",
     "let range_b = (reach / self.cell.b()).floor() as i64 + 1;", "let range_b = (reach / self.cell.a()).floor() as i64 + 1;"),
    ("C01", "prefilter-halved", "src/state/packed.rs",
     "self.shape.enclosing_radius().mul(2.).powi(2)", "self.shape.enclosing_radius().mul(1.5).powi(2)"),
    ("C01", "heuristic-shells-again", "src/state/packed.rs",
     "let range_a = (reach / self.cell.a()).floor() as i64 + 1;\n        let range_b = (reach / self.cell.b()).floor() as i64 + 1;",
     "let range_a = if reach / self.cell.a() < 1. { 1 } else { 2 };\n        let range_b = range_a;"),
    ("C01", "endpoint-tolerance-removed", "src/shape/components/line2.rs",
     "let tol = 1e-10;", "let tol = 0.;"),
    ("C11", "svg-matrix-transposed", "src/to_svg.rs",
     "                matrix[(1, 0)],\n                matrix[(0, 1)],", "                matrix[(0, 1)],\n                matrix[(1, 0)],"),
    ("C11", "svg-images-two-shells", "src/to_svg.rs",
     "for transform in self.cell.periodic_images(position, 1, false) {", "for transform in self.cell.periodic_images(position, 1, true) {"),
    ("C11", "lossy-float-parse-again", "Cargo.toml",
     'serde_json = {version="~1.0.57", features=["float_roundtrip"]}', 'serde_json = "~1.0.57"'),
    ("C11", "f32-visitor", "src/basis.rs",
     "        Ok(value)\n    }\n}", "        Ok(value as f32 as f64)\n    }\n}"),
    ("C10", "min-instead-of-max", "src/main.rs",
     "        .max()\n", "        .min()\n"),
    ("C10", "label-p2gg-as-p2mg", "src/wallpaper.rs",
     'name: "p2gg",', 'name: "p2mg",'),
    ("C10", "lj-order-reversed", "src/state/potential.rs",
     "            (Some(s), Some(o)) => s.partial_cmp(&o),\n            (_, _) => None,\n        }\n    }\n}\n\nimpl<S> Ord for PotentialState<S>",
     "            (Some(s), Some(o)) => o.partial_cmp(&s),\n            (_, _) => None,\n        }\n    }\n}\n\nimpl<S> Ord for PotentialState<S>"),
    ("C09", "entropy-seed-in-last-stage", "src/main.rs",
     "                .kt_start(0.)\n                .seed(index)\n                .build()\n                .optimise_state(opt_state)\n        })\n        .max()",
     "                .kt_start(0.)\n                .build()\n                .optimise_state(opt_state)\n        })\n        .max()"),
    ("C09", "static-step-counter-seed", "src/optimisation.rs",
     "        let mut rng = Pcg64Mcg::seed_from_u64(self.seed);",
     "        static CALLS: std::sync::atomic::AtomicU64 = std::sync::atomic::AtomicU64::new(0);\n        let n = CALLS.fetch_add(1, std::sync::atomic::Ordering::Relaxed);\n        let mut rng = Pcg64Mcg::seed_from_u64(self.seed ^ (n / 64));"),
]


def sh(cmd, **kw):
    return subprocess.run(cmd, shell=True, capture_output=True, text=True, **kw)


def restore():
    sh(f"git -C {REPO} checkout -- .")


def main():
    only = None
    prop = None
    tests = False
    args = sys.argv[1:]
    while args:
        a = args.pop(0)
        if a == "--only":
            only = args.pop(0)
        elif a == "--prop":
            prop = args.pop(0)
        elif a == "--tests":
            tests = True
    if sh(f"git -C {REPO} status --porcelain --untracked-files=no").stdout.strip():
        print("refusing to run: /repo has uncommitted changes")
        return 2
    results = []
    try:
        for (pid, name, file, old, new) in MUTANTS:
            if only and only not in name:
                continue
            if prop and prop != pid:
                continue
            path = os.path.join(REPO, file)
            src = open(path).read()
            if old not in src:
                results.append((pid, name, "STALE (pattern not found)"))
                print(pid, name, "STALE (pattern not found)", flush=True)
                continue
            open(path, "w").write(src.replace(old, new, 1))
            t0 = time.time()
            verdict = ""
            if tests:
                r = sh(f"cd {REPO} && cargo test --offline --lib --bins --tests 2>&1 | grep -E 'test result|error' ")
                bad = [l for l in r.stdout.splitlines() if "FAILED" in l or "error" in l]
                verdict += "tests:" + ("RED " if bad else "green ")
            r = sh(f"cd {VERIF} && ./check {pid} quick")
            caught = r.returncode == 1 and "VIOLATION property=" + pid in r.stdout
            detail = [l for l in r.stdout.splitlines() if l.startswith("VIOLATION-DETAIL")]
            verdict += ("CAUGHT" if caught else f"MISSED (exit {r.returncode})") + f" {time.time()-t0:.0f}s"
            if detail:
                verdict += " :: " + detail[0][:160]
            elif r.returncode == 2:
                verdict += " :: " + r.stderr.strip()[-300:]
            results.append((pid, name, verdict))
            print(pid, name, verdict, flush=True)
            restore()
            [os.remove(os.path.join(VERIF,"replay",f)) for f in os.listdir(os.path.join(VERIF,"replay")) if f.endswith(".json")]
    finally:
        restore()
    missed = [r for r in results if "CAUGHT" not in r[2]]
    print(f"{len(results) - len(missed)} of {len(results)} mutants caught")
    return 1 if missed else 0


if __name__ == "__main__":
    sys.exit(main())
