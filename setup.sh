#!/bin/bash
# Build the verification harness and the shipped binary, offline, from files on disk only.
set -e
HERE="$(cd "$(dirname "${BASH_SOURCE[0]}")" && pwd)"
export CARGO_NET_OFFLINE=true
cd "$HERE/sim"
cargo build --release --offline --workspace
cd /repo
env -u RUSTFLAGS cargo build --release --offline --bin packing --target-dir "$HERE/sim/target-cli"
mkdir -p "$HERE/evidence" "$HERE/replay"
echo "setup ok"
