#!/bin/bash
# Build the verification harness and the shipped binary, offline, from files on disk only.
set -e
HERE="$(cd "$(dirname "${BASH_SOURCE[0]}")" && pwd)"
export CARGO_NET_OFFLINE=true
REPO="${VERIF_REPO:-/repo}"
ln -sfn "$REPO" "$HERE/sim/repo-link"
. "$HERE/tools/repo_stamp.sh"
repo_stamp_harness "$HERE" "$REPO"
repo_stamp_cli "$HERE" "$REPO"
cd "$HERE/sim"
env -u CARGO_BUILD_TARGET_DIR CARGO_TARGET_DIR="$HERE/sim/target" RUSTFLAGS="--cfg packing_verif -Awarnings" cargo build --release --offline --workspace
cd "$REPO"
env -u RUSTFLAGS -u CARGO_TARGET_DIR -u CARGO_BUILD_TARGET_DIR cargo build --release --offline --bin packing --target-dir "$HERE/sim/target-cli"
mkdir -p "$HERE/evidence" "$HERE/replay"
echo "setup ok"
