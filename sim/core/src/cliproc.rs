//! E4 — process-level fault matrix for the shipped `packing` binary.
//!
//! The binary (built from /repo with the hook guard OFF) with RAYON_NUM_THREADS=1 is a
//! deterministic function of its arguments and of the file namespace it is pointed at.  Faults are
//! injected through that namespace (no code seam exists around `File::create`/`svg::save`).

use crate::json::J;
use crate::prng::{Hasher64, Rng};
use std::path::{Path, PathBuf};
use std::process::{Command, Stdio};
use std::sync::atomic::{AtomicU64, Ordering};

pub const GROUPS: [&str; 7] = ["p1", "p2", "p1m1", "p1g1", "p2mm", "p2mg", "p2gg"];

pub fn cli_bin() -> Result<String, String> {
    let p = std::env::var("VERIF_CLI_BIN").unwrap_or_else(|_| "/verif/sim/target-cli/release/packing".to_string());
    if Path::new(&p).is_file() {
        Ok(p)
    } else {
        Err(format!("shipped binary not found at {} (run ./check, which builds it)", p))
    }
}

#[derive(Clone, Debug)]
pub struct CliScenario {
    pub group: String,
    /// "polygon" | "circle" | "trimer"
    pub shape: String,
    pub sides: Option<i64>,
    pub trimer: Option<(f64, f64, f64)>, // radius, angle, distance
    pub potential: Option<String>,
    pub replications: Option<u64>,
    pub steps: Option<u64>,
    pub inner_steps: Option<u64>,
    pub kt_start: Option<f64>,
    pub kt_finish: Option<f64>,
    pub kt_ratio: Option<f64>,
    pub max_step_size: Option<f64>,
    pub convergence: Option<f64>,
    pub threads: u64,
    /// number of -v flags (0: info, 1: debug, 2+: trace): debug!/trace! statements then run too
    pub verbosity: u64,
    /// "none" | "enoent" | "enotdir" | "eisdir-json" | "eisdir-svg" | "enospc-json" | "enospc-svg"
    /// | "start-config-missing" | "start-config-other-group" | "stale-output" | "stale-earlier-result"
    pub fault: String,
}

fn of(x: Option<f64>) -> J {
    J::opt_f64bits(x)
}
fn ou(x: Option<u64>) -> J {
    x.map(J::uint).unwrap_or(J::Null)
}

impl CliScenario {
    pub fn to_json(&self) -> J {
        J::obj()
            .set("engine", J::str("e4-cliproc"))
            .set("group", J::str(self.group.clone()))
            .set("shape", J::str(self.shape.clone()))
            .set("sides", self.sides.map(J::int).unwrap_or(J::Null))
            .set(
                "trimer",
                match self.trimer {
                    Some((r, a, d)) => J::Arr(vec![J::f64bits(r), J::f64bits(a), J::f64bits(d)]),
                    None => J::Null,
                },
            )
            .set("potential", self.potential.clone().map(J::str).unwrap_or(J::Null))
            .set("replications", ou(self.replications))
            .set("steps", ou(self.steps))
            .set("inner_steps", ou(self.inner_steps))
            .set("kt_start", of(self.kt_start))
            .set("kt_finish", of(self.kt_finish))
            .set("kt_ratio", of(self.kt_ratio))
            .set("max_step_size", of(self.max_step_size))
            .set("convergence", of(self.convergence))
            .set("threads", J::uint(self.threads))
            .set("verbosity", J::uint(self.verbosity))
            .set("fault", J::str(self.fault.clone()))
    }
    pub fn from_json(j: &J) -> Result<CliScenario, String> {
        let s = |k: &str| j.get(k).and_then(|x| x.as_str()).map(|x| x.to_string());
        let f = |k: &str| j.get(k).and_then(|x| x.as_f64bits());
        let u = |k: &str| j.get(k).and_then(|x| x.as_u64());
        Ok(CliScenario {
            group: s("group").ok_or("cli.group")?,
            shape: s("shape").ok_or("cli.shape")?,
            sides: j.get("sides").and_then(|x| x.as_i64()),
            trimer: j.get("trimer").and_then(|t| t.as_arr()).and_then(|a| {
                Some((a.get(0)?.as_f64bits()?, a.get(1)?.as_f64bits()?, a.get(2)?.as_f64bits()?))
            }),
            potential: s("potential"),
            replications: u("replications"),
            steps: u("steps"),
            inner_steps: u("inner_steps"),
            kt_start: f("kt_start"),
            kt_finish: f("kt_finish"),
            kt_ratio: f("kt_ratio"),
            max_step_size: f("max_step_size"),
            convergence: f("convergence"),
            threads: u("threads").unwrap_or(1),
            verbosity: u("verbosity").unwrap_or(0),
            fault: s("fault").unwrap_or_else(|| "none".into()),
        })
    }

    /// argv after the program name; `out` is the --outfile value
    pub fn argv(&self, out: &str, start_config: Option<&str>) -> Vec<String> {
        let mut a: Vec<String> = vec![];
        for _ in 0..self.verbosity {
            a.push("-v".to_string());
        }
        let mut opt = |k: &str, v: Option<String>| {
            if let Some(v) = v {
                a.push(k.to_string());
                a.push(v);
            }
        };
        opt("-p", self.potential.clone());
        opt("--replications", self.replications.map(|x| x.to_string()));
        opt("--steps", self.steps.map(|x| x.to_string()));
        opt("--inner-steps", self.inner_steps.map(|x| x.to_string()));
        opt("--kt-start", self.kt_start.map(|x| format!("{:?}", x)));
        opt("--kt-finish", self.kt_finish.map(|x| format!("{:?}", x)));
        opt("--kt-ratio", self.kt_ratio.map(|x| format!("{:?}", x)));
        opt("--max-step-size", self.max_step_size.map(|x| format!("{:?}", x)));
        opt("--convergence", self.convergence.map(|x| format!("{:?}", x)));
        opt("--start-config", start_config.map(|x| x.to_string()));
        a.push("--outfile".into());
        a.push(out.to_string());
        a.push(self.group.clone());
        a.push(self.shape.clone());
        match self.shape.as_str() {
            "polygon" => {
                if let Some(s) = self.sides {
                    a.push(format!("--sides={}", s));
                }
            }
            "trimer" => {
                if let Some((r, an, d)) = self.trimer {
                    a.push(format!("--radius={:?}", r));
                    a.push(format!("--angle={:?}", an));
                    a.push(format!("--distance={:?}", d));
                }
            }
            _ => {}
        }
        a
    }

    /// Is this invocation inside the tool's supported domain (so that success is possible)?
    pub fn valid_args(&self) -> bool {
        let pot_ok = !(self.shape == "polygon" && self.potential.as_deref() == Some("LJ"));
        let sides_ok = self.shape != "polygon" || self.sides.map(|s| s >= 3).unwrap_or(true);
        let repl_ok = self.replications.map(|r| r >= 1).unwrap_or(true);
        pot_ok && sides_ok && repl_ok && GROUPS.contains(&self.group.as_str())
    }
}

pub struct CliResult {
    pub code: Option<i32>,
    pub stderr: String,
    pub stdout: String,
    pub json: Option<Vec<u8>>,
    pub svg: Option<Vec<u8>>,
    pub json_is_regular: bool,
    pub svg_is_regular: bool,
    pub argv: Vec<String>,
    pub final_score_text: Option<String>,
}

static COUNTER: AtomicU64 = AtomicU64::new(0);

fn scratch_root() -> PathBuf {
    let base = std::env::var("VERIF_DIR").unwrap_or_else(|_| "/verif".to_string());
    PathBuf::from(base).join("sim").join("scratch")
}

/// stderr with the env_logger timestamp prefix removed (the only run-to-run varying part)
pub fn normalise_stderr(s: &str) -> String {
    let mut out = String::new();
    for line in s.lines() {
        let l = if line.starts_with('[') {
            match line.find("] ") {
                Some(p) => {
                    // keep level + target: "[2020-.. INFO  packing] msg" -> "INFO packing] msg"
                    let head = &line[1..p];
                    let mut parts = head.split_whitespace();
                    let _ts = parts.next();
                    let rest: Vec<&str> = parts.collect();
                    format!("[{}] {}", rest.join(" "), &line[p + 2..])
                }
                None => line.to_string(),
            }
        } else if line.starts_with("thread '") {
            // "thread 'main' (12345) panicked at ..": the OS thread id is not part of the outcome
            match (line.find("' ("), line.find(") panicked")) {
                (Some(a), Some(b)) if a < b && line[a + 3..b].bytes().all(|c| c.is_ascii_digit()) => format!("{}'{}", &line[..a], &line[b + 1..]),
                _ => line.to_string(),
            }
        } else {
            line.to_string()
        };
        out.push_str(&l);
        out.push('\n');
    }
    out
}

pub fn run_cli(sc: &CliScenario) -> Result<CliResult, String> {
    let bin = cli_bin()?;
    let id = COUNTER.fetch_add(1, Ordering::SeqCst);
    let dir = scratch_root().join(format!("{}-{}", std::process::id(), id));
    let _ = std::fs::remove_dir_all(&dir);
    std::fs::create_dir_all(&dir).map_err(|e| format!("scratch dir: {}", e))?;
    let mut out = dir.join("out");
    let mut start_config: Option<String> = None;
    let mk = |r: std::io::Result<()>| r.map_err(|e| format!("fault layout: {}", e));
    match sc.fault.as_str() {
        "none" => {}
        "enoent" => out = dir.join("missing_dir").join("out"),
        "enotdir" => {
            mk(std::fs::write(dir.join("plainfile"), b"x"))?;
            out = dir.join("plainfile").join("out");
        }
        "eisdir-json" => mk(std::fs::create_dir(dir.join("out.json")))?,
        "eisdir-svg" => mk(std::fs::create_dir(dir.join("out.svg")))?,
        "enospc-json" => mk(std::os::unix::fs::symlink("/dev/full", dir.join("out.json")))?,
        "enospc-svg" => mk(std::os::unix::fs::symlink("/dev/full", dir.join("out.svg")))?,
        "start-config-missing" => start_config = Some(dir.join("no_such_config.json").to_string_lossy().to_string()),
        // an existing, valid start configuration that was produced for ANOTHER wallpaper group (same
        // shape and potential): whatever the tool does with --start-config, what it writes must be
        // what the positional arguments ask for
        "start-config-other-group" => {
            let mut pre = sc.clone();
            pre.fault = "none".into();
            pre.group = if sc.group == "p2" { "p1".to_string() } else { "p2".to_string() };
            pre.replications = Some(1);
            pre.steps = Some(20);
            pre.verbosity = 0;
            let pre_out = dir.join("start");
            let argv = pre.argv(&pre_out.to_string_lossy(), None);
            let st = Command::new(&bin)
                .args(&argv)
                .env_clear()
                .env("RAYON_NUM_THREADS", "1")
                .current_dir(&dir)
                .stdin(Stdio::null())
                .stdout(Stdio::null())
                .stderr(Stdio::null())
                .status()
                .map_err(|e| format!("spawn (start config): {}", e))?;
            if st.success() {
                start_config = Some(pre_out.with_extension("json").to_string_lossy().to_string());
            }
        }
        // F-stale with content that means something: an earlier, longer run with the same shape,
        // potential and group already wrote its (probably better) result to the same --outfile
        "stale-earlier-result" => {
            let mut pre = sc.clone();
            pre.fault = "none".into();
            pre.steps = Some(sc.steps.unwrap_or(100).saturating_mul(6).saturating_add(400).min(5000));
            pre.replications = Some(sc.replications.unwrap_or(1).saturating_add(3).min(12));
            pre.convergence = None;
            pre.verbosity = 0;
            let argv = pre.argv(&out.to_string_lossy(), None);
            let _ = Command::new(&bin)
                .args(&argv)
                .env_clear()
                .env("RAYON_NUM_THREADS", "1")
                .current_dir(&dir)
                .stdin(Stdio::null())
                .stdout(Stdio::null())
                .stderr(Stdio::null())
                .status()
                .map_err(|e| format!("spawn (earlier run): {}", e))?;
        }
        // F-stale: both output files already exist, longer than anything the run will write
        "stale-output" => {
            let junk = vec![b'#'; 20_000];
            mk(std::fs::write(dir.join("out.json"), &junk))?;
            mk(std::fs::write(dir.join("out.svg"), &junk))?;
        }
        other => return Err(format!("unknown fault {}", other)),
    }
    let argv = sc.argv(&out.to_string_lossy(), start_config.as_deref());
    // address space capped at 4 GiB: a run that tries to allocate in proportion to an
    // astronomically large --steps fails in its own process instead of exhausting the machine
    let child = Command::new("/bin/sh")
        .arg("-c")
        .arg("ulimit -v 4194304; exec \"$0\" \"$@\"")
        .arg(&bin)
        .args(&argv)
        .env_clear()
        .env("RAYON_NUM_THREADS", sc.threads.to_string())
        .env("RUST_BACKTRACE", "0")
        .current_dir(&dir)
        .stdin(Stdio::null())
        .stdout(Stdio::piped())
        .stderr(Stdio::piped())
        .spawn()
        .map_err(|e| format!("spawn {}: {}", bin, e))?;
    // bounded wait: the tool's runs here take well under a second; one that is still running after
    // five minutes is killed (the caller sees "terminated by a signal")
    let pid = child.id();
    let done = std::sync::Arc::new(std::sync::atomic::AtomicBool::new(false));
    let done2 = done.clone();
    let killer = std::thread::spawn(move || {
        let t0 = std::time::Instant::now();
        while !done2.load(std::sync::atomic::Ordering::SeqCst) {
            if t0.elapsed() > std::time::Duration::from_secs(300) {
                let _ = Command::new("kill").arg("-9").arg(pid.to_string()).status();
                return;
            }
            std::thread::sleep(std::time::Duration::from_millis(50));
        }
    });
    let output = child.wait_with_output().map_err(|e| format!("wait: {}", e));
    done.store(true, std::sync::atomic::Ordering::SeqCst);
    let _ = killer.join();
    let output = output?;
    let jp = out.with_extension("json");
    let sp = out.with_extension("svg");
    let is_reg = |p: &Path| std::fs::symlink_metadata(p).map(|m| m.file_type().is_file()).unwrap_or(false);
    let json_is_regular = is_reg(&jp);
    let svg_is_regular = is_reg(&sp);
    let json = if json_is_regular { std::fs::read(&jp).ok() } else { None };
    let svg = if svg_is_regular { std::fs::read(&sp).ok() } else { None };
    // the scratch directory's name is unique per execution: it is not part of what is compared
    let stderr = String::from_utf8_lossy(&output.stderr).replace(&*dir.to_string_lossy(), "<dir>");
    let final_score_text = stderr
        .lines()
        .filter_map(|l| l.find("Final score: ").map(|p| l[p + "Final score: ".len()..].trim().to_string()))
        .last();
    let res = CliResult {
        code: output.status.code(),
        stderr,
        stdout: String::from_utf8_lossy(&output.stdout).to_string(),
        json,
        svg,
        json_is_regular,
        svg_is_regular,
        argv,
        final_score_text,
    };
    let _ = std::fs::remove_dir_all(&dir);
    Ok(res)
}

impl CliResult {
    pub fn hash(&self) -> u64 {
        let mut h = Hasher64::new();
        h.u64(self.code.map(|c| c as u64).unwrap_or(u64::MAX));
        h.bytes(normalise_stderr(&self.stderr).as_bytes());
        h.bytes(self.json.as_deref().unwrap_or(b"-"));
        h.bytes(self.svg.as_deref().unwrap_or(b"-"));
        h.finish()
    }
    pub fn sample(&self) -> J {
        J::obj()
            .set("argv", J::Arr(self.argv.iter().map(|a| J::str(a.clone())).collect()))
            .set("exit", self.code.map(|c| J::int(c as i64)).unwrap_or(J::Null))
            .set("stderr_tail", J::str(normalise_stderr(&self.stderr).lines().rev().take(2).collect::<Vec<_>>().join(" | ")))
            .set("json_bytes", J::uint(self.json.as_ref().map(|j| j.len()).unwrap_or(0) as u64))
            .set("svg_bytes", J::uint(self.svg.as_ref().map(|j| j.len()).unwrap_or(0) as u64))
    }
}

pub const DISK_FAULTS: [&str; 6] = ["enoent", "enotdir", "eisdir-json", "eisdir-svg", "enospc-json", "enospc-svg"];

/// a valid shape/potential/group combination from the swarm
pub fn gen_valid(rng: &mut Rng) -> CliScenario {
    let group = rng.pick(&GROUPS).to_string();
    let shape = rng.pick(&["polygon", "polygon", "circle", "trimer", "trimer"]).to_string();
    let potential = match shape.as_str() {
        "polygon" => rng.pick(&[None, Some("Hard")]).map(|s| s.to_string()),
        _ => rng.pick(&[None, Some("Hard"), Some("LJ"), Some("LJ")]).map(|s| s.to_string()),
    };
    let sides = if shape == "polygon" { *rng.pick(&[None, Some(3), Some(4), Some(5), Some(6), Some(7), Some(8)]) } else { None };
    let trimer = if shape == "trimer" {
        if rng.chance(0.3) {
            None
        } else {
            // radius, angle (degrees), distance: discs never swallow each other (distance >= 1)
            Some((
                (rng.range_f64(0.3, 1.0) * 1000.0).round() / 1000.0,
                (rng.range_f64(40.0, 180.0)).round(),
                (rng.range_f64(1.0, 2.0) * 100.0).round() / 100.0,
            ))
        }
    } else {
        None
    };
    CliScenario {
        group,
        shape,
        sides,
        trimer,
        potential,
        replications: Some(*rng.pick(&[1u64, 1, 2, 3, 5])),
        steps: Some(*rng.pick(&[1u64, 10, 100, 200, 300])),
        inner_steps: *rng.pick(&[None, Some(1u64), Some(10), Some(100), Some(1000)]),
        kt_start: *rng.pick(&[None, Some(0.0), Some(0.1), Some(1.0)]),
        kt_finish: *rng.pick(&[None, Some(0.001), Some(0.0)]),
        kt_ratio: *rng.pick(&[None, None, Some(0.1), Some(0.0)]),
        max_step_size: *rng.pick(&[None, Some(0.01), Some(0.1), Some(0.0)]),
        convergence: *rng.pick(&[None, None, Some(1e-6), Some(0.0)]),
        threads: 1,
        verbosity: *rng.pick(&[0u64, 0, 0, 1, 2, 3]),
        fault: "none".into(),
    }
}
