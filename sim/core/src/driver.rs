//! Generic seeded-search driver: generate scenarios from one master seed, execute them on all
//! cores, aggregate in index order (so the outcome does not depend on the worker count),
//! minimise + persist + re-verify violations, match known findings, write evidence.

use crate::json::{self, J};
use crate::prng::{derive_seed, Rng};
use std::collections::{BTreeMap, BTreeSet};
use std::sync::atomic::{AtomicU64, Ordering};
use std::sync::Mutex;
use std::time::Instant;

pub const DEFAULT_SEED: u64 = 20260917;

#[derive(Clone, Copy, Debug, PartialEq, Eq)]
pub enum Tier {
    Quick,
    Thorough,
}

impl Tier {
    pub fn name(self) -> &'static str {
        match self {
            Tier::Quick => "quick",
            Tier::Thorough => "thorough",
        }
    }
}

#[derive(Clone, Debug)]
pub struct Violation {
    /// violation class: stable identifier used for minimisation, replay and known findings
    pub class: String,
    /// step / call index at which it was detected (0 if not applicable)
    pub step: u64,
    pub detail: String,
    /// extra fields a known-findings matcher may refer to
    pub signature: Vec<(String, String)>,
}

impl Violation {
    pub fn new<S: Into<String>, D: Into<String>>(class: S, step: u64, detail: D) -> Violation {
        Violation { class: class.into(), step, detail: detail.into(), signature: vec![] }
    }
    pub fn sig<K: Into<String>, V: Into<String>>(mut self, k: K, v: V) -> Violation {
        self.signature.push((k.into(), v.into()));
        self
    }
    pub fn to_json(&self) -> J {
        let mut sig = J::obj();
        for (k, v) in &self.signature {
            sig.put(k.clone(), J::str(v.clone()));
        }
        J::obj()
            .set("class", J::str(self.class.clone()))
            .set("step", J::uint(self.step))
            .set("detail", J::str(self.detail.clone()))
            .set("signature", sig)
    }
}

#[derive(Clone, Debug, Default)]
pub struct RunOut {
    /// at most one violation per class
    pub violations: Vec<Violation>,
    pub hash: u64,
    pub nontrivial: bool,
    pub sim_steps: u64,
    pub counters: BTreeMap<String, u64>,
    pub sample: Option<J>,
}

impl RunOut {
    pub fn to_json(&self) -> J {
        let mut c = J::obj();
        for (k, v) in &self.counters {
            c.put(k.clone(), J::uint(*v));
        }
        J::obj()
            .set("violations", J::Arr(self.violations.iter().map(|v| v.to_json()).collect()))
            .set("hash", J::str(format!("{:016x}", self.hash)))
            .set("nontrivial", J::Bool(self.nontrivial))
            .set("sim_steps", J::uint(self.sim_steps))
            .set("counters", c)
            .set("sample", self.sample.clone().unwrap_or(J::Null))
    }
    pub fn from_json(j: &J) -> Result<RunOut, String> {
        let mut out = RunOut::default();
        for v in j.get("violations").and_then(|a| a.as_arr()).ok_or("runout.violations")? {
            let mut viol = Violation::new(
                v.get("class").and_then(|x| x.as_str()).unwrap_or(""),
                v.get("step").and_then(|x| x.as_u64()).unwrap_or(0),
                v.get("detail").and_then(|x| x.as_str()).unwrap_or(""),
            );
            if let Some(J::Obj(m)) = v.get("signature") {
                for (k, val) in m {
                    viol.signature.push((k.clone(), val.as_str().unwrap_or("").to_string()));
                }
            }
            out.violations.push(viol);
        }
        out.hash = j.get("hash").and_then(|x| x.as_str()).and_then(|h| u64::from_str_radix(h, 16).ok()).ok_or("runout.hash")?;
        out.nontrivial = j.get("nontrivial").and_then(|x| x.as_bool()).unwrap_or(false);
        out.sim_steps = j.get("sim_steps").and_then(|x| x.as_u64()).unwrap_or(0);
        if let Some(J::Obj(m)) = j.get("counters") {
            for (k, v) in m {
                out.counters.insert(k.clone(), v.as_u64().unwrap_or(0));
            }
        }
        out.sample = j.get("sample").filter(|s| !s.is_null()).cloned();
        Ok(out)
    }
    pub fn count(&mut self, key: &str, n: u64) {
        if n > 0 {
            *self.counters.entry(key.to_string()).or_insert(0) += n;
        }
    }
    pub fn violate(&mut self, v: Violation) {
        if !self.violations.iter().any(|x| x.class == v.class) {
            self.violations.push(v);
        }
    }
}

pub trait Check: Sync {
    fn id(&self) -> &'static str;
    fn level(&self) -> &'static str {
        "exploration"
    }
    fn rule(&self) -> String;
    fn runs(&self, tier: Tier) -> u64;
    /// wall-clock cap (seconds) after which no new runs are started
    fn budget_s(&self, tier: Tier) -> f64 {
        match tier {
            Tier::Quick => 90.0,
            Tier::Thorough => 1500.0,
        }
    }
    /// worker threads to use (E4 style checks that spawn processes may want fewer)
    fn workers(&self) -> usize {
        std::thread::available_parallelism().map(|n| n.get()).unwrap_or(4).min(16)
    }
    fn generate(&self, rng: &mut Rng, tier: Tier, index: u64) -> J;
    fn execute(&self, scenario: &J) -> Result<RunOut, String>;
    fn shrink(&self, _scenario: &J) -> Vec<J> {
        vec![]
    }
    fn components_real(&self) -> Vec<&'static str>;
    fn components_stub(&self) -> Vec<&'static str>;
    fn assumptions(&self) -> Vec<String>;
    /// Execute every scenario in a fresh child process (the scenario then sees process-global
    /// state - statics, caches, thread-locals - exactly as a replay of its file does).
    fn isolate(&self) -> bool {
        false
    }
    /// For properties that *are* about determinism (C09): if the same scenario gives different
    /// outcomes in two fresh processes, that is reported as a violation of its own class
    /// ("differs-between-fresh-processes", replayed by running the scenario in two fresh processes)
    /// instead of as a harness error.
    fn nondeterminism_is_violation(&self) -> bool {
        false
    }
    /// Isolation decided per scenario (default: the check-wide answer).  A scenario that may make
    /// the code under test abort the process (allocation failure) or run without end belongs in a
    /// child process even when the rest of the check runs in-process.
    fn isolate_scenario(&self, _scenario: &J) -> bool {
        self.isolate()
    }
    /// If the child process of an isolated scenario dies without a result (abort, signal), the
    /// property itself may be what failed ("returns without panicking"): the class to report.
    /// None = a harness error, as for every other check.
    fn child_death_class(&self, _scenario: &J) -> Option<&'static str> {
        None
    }
    /// Same for an isolated scenario that is still running when the child time limit expires and
    /// whose termination within a bounded number of steps is what the property promises.
    /// None = inconclusive (counted, decides nothing).
    fn child_timeout_class(&self, _scenario: &J) -> Option<&'static str> {
        None
    }
    /// probes that should be non-zero in a healthy run (coverage warnings otherwise)
    fn expected_probes(&self) -> Vec<&'static str> {
        vec![]
    }
}

#[derive(Clone, Debug)]
pub struct KnownFinding {
    pub property: String,
    pub key: String,
    pub class: String,
    pub where_: Vec<(String, String)>,
    pub description: String,
    pub status: String,
}

pub fn load_known_findings(path: &str) -> Result<Vec<KnownFinding>, String> {
    let text = match std::fs::read_to_string(path) {
        Ok(t) => t,
        Err(_) => return Ok(vec![]),
    };
    let j = json::parse(&text)?;
    let mut out = vec![];
    if let Some(arr) = j.get("findings").and_then(|a| a.as_arr()) {
        for e in arr {
            let g = |k: &str| e.get(k).and_then(|x| x.as_str()).unwrap_or("").to_string();
            let mut where_ = vec![];
            if let Some(J::Obj(m)) = e.get("where") {
                for (k, v) in m {
                    where_.push((k.clone(), v.as_str().unwrap_or("").to_string()));
                }
            }
            out.push(KnownFinding {
                property: g("property"),
                key: g("key"),
                class: g("class"),
                where_,
                description: g("description"),
                status: g("status"),
            });
        }
    }
    Ok(out)
}

fn matches_finding(id: &str, v: &Violation, kf: &[KnownFinding]) -> Option<usize> {
    kf.iter().position(|f| {
        f.status == "open"
            && f.property == id
            && f.class == v.class
            && f.where_.iter().all(|(k, val)| v.signature.iter().any(|(a, b)| a == k && b == val))
    })
}

pub struct Options {
    pub tier: Tier,
    pub seed: u64,
    pub verif_dir: String,
    pub replay: Option<String>,
    pub runs_override: Option<u64>,
    pub no_respawn: bool,
    pub exec_scenario: Option<String>,
    /// debugging aid: print the scenarios of the first N runs (with their outcome hash) and stop
    pub dump: Option<u64>,
}

pub fn parse_options(args: &[String]) -> Result<(String, Options), String> {
    if args.is_empty() {
        return Err("usage: <ID> [--tier quick|thorough] [--seed N] [--replay FILE] [--runs N]".into());
    }
    let id = args[0].clone();
    let mut o = Options {
        tier: match std::env::var("VERIF_TIER").ok().as_deref() {
            Some("thorough") => Tier::Thorough,
            _ => Tier::Quick,
        },
        seed: std::env::var("VERIF_SEED").ok().and_then(|s| s.trim().parse().ok()).unwrap_or(DEFAULT_SEED),
        verif_dir: std::env::var("VERIF_DIR").unwrap_or_else(|_| "/verif".to_string()),
        replay: None,
        runs_override: std::env::var("VERIF_RUNS").ok().and_then(|s| s.parse().ok()),
        no_respawn: false,
        exec_scenario: None,
        dump: None,
    };
    let mut i = 1;
    while i < args.len() {
        match args[i].as_str() {
            "--tier" => {
                i += 1;
                o.tier = match args.get(i).map(|s| s.as_str()) {
                    Some("quick") => Tier::Quick,
                    Some("thorough") => Tier::Thorough,
                    other => return Err(format!("bad tier {:?}", other)),
                };
            }
            "--seed" => {
                i += 1;
                o.seed = args.get(i).and_then(|s| s.parse().ok()).ok_or("bad seed")?;
            }
            "--replay" => {
                i += 1;
                o.replay = Some(args.get(i).cloned().ok_or("missing replay path")?);
            }
            "--runs" => {
                i += 1;
                o.runs_override = Some(args.get(i).and_then(|s| s.parse().ok()).ok_or("bad runs")?);
            }
            "--no-respawn" => o.no_respawn = true,
            "--dump" => {
                i += 1;
                o.dump = Some(args.get(i).and_then(|s| s.parse().ok()).ok_or("bad dump count")?);
            }
            "--exec-scenario" => {
                i += 1;
                o.exec_scenario = Some(args.get(i).cloned().ok_or("missing scenario path")?);
            }
            other => return Err(format!("unknown argument {}", other)),
        }
        i += 1;
    }
    Ok((id, o))
}

fn hash_hex(h: u64) -> String {
    format!("{:016x}", h)
}

/// Execute one replay file. Exit code semantics: 1 reproduced, 0 not reproduced, 2 harness error.
pub fn replay(check: &dyn Check, path: &str) -> i32 {
    let text = match std::fs::read_to_string(path) {
        Ok(t) => t,
        Err(e) => {
            eprintln!("HARNESS-ERROR cannot read {}: {}", path, e);
            return 2;
        }
    };
    let j = match json::parse(&text) {
        Ok(j) => j,
        Err(e) => {
            eprintln!("HARNESS-ERROR cannot parse {}: {}", path, e);
            return 2;
        }
    };
    let scenario = match j.get("scenario") {
        Some(s) => s.clone(),
        None => {
            eprintln!("HARNESS-ERROR no scenario in {}", path);
            return 2;
        }
    };
    let want_class = j.path(&["violation", "class"]).and_then(|x| x.as_str()).unwrap_or("").to_string();
    let want_step = j.path(&["violation", "step"]).and_then(|x| x.as_u64()).unwrap_or(0);
    let want_hash = j.get("history_hash").and_then(|x| x.as_str()).unwrap_or("").to_string();
    println!("REPLAY property={} file={} seed={}", check.id(), path,
        j.get("seed").and_then(|s| s.as_u64()).unwrap_or(0));
    if want_class == NONDET_CLASS {
        let dir = std::env::var("VERIF_DIR").unwrap_or_else(|_| "/verif".to_string());
        // the source of the nondeterminism is outside every seam (e.g. OS entropy), so the replay is
        // a bounded search: up to 8 fresh processes, reproduced as soon as two outcomes differ
        let mut first: Option<u64> = None;
        for _ in 0..8 {
            match execute_isolated(check, &dir, &scenario) {
                Ok(o) => match first {
                    None => first = Some(o.hash),
                    Some(h) if h != o.hash => {
                        println!("REPRODUCED class={} fresh processes gave outcome hashes {} and {}", NONDET_CLASS, hash_hex(h), hash_hex(o.hash));
                        println!("VIOLATION property={} replay={}", check.id(), path);
                        return 1;
                    }
                    _ => {}
                },
                Err(e) => {
                    eprintln!("HARNESS-ERROR {}", e);
                    return 2;
                }
            }
        }
        println!("NOT-REPRODUCED 8 fresh processes agree on this tree");
        return 0;
    }
    // a scenario that is isolated because it may kill its process is replayed in a child too
    let replayed = if check.isolate_scenario(&scenario) && !check.isolate() {
        let dir = std::env::var("VERIF_DIR").unwrap_or_else(|_| "/verif".to_string());
        execute_isolated(check, &dir, &scenario)
    } else {
        check.execute(&scenario)
    };
    match replayed {
        Err(e) => {
            eprintln!("HARNESS-ERROR {}", e);
            2
        }
        Ok(out) => {
            let same = out.violations.iter().find(|v| v.class == want_class);
            match same {
                Some(v) => {
                    println!(
                        "REPRODUCED class={} step={} hash={} (recorded step={} hash={}) detail={}",
                        v.class, v.step, hash_hex(out.hash), want_step, want_hash, v.detail
                    );
                    if v.step != want_step || hash_hex(out.hash) != want_hash {
                        println!("REPLAY-MISMATCH step/hash differ from the recorded ones");
                        return 3;
                    }
                    println!("VIOLATION property={} replay={}", check.id(), path);
                    1
                }
                None => {
                    if let Some(v) = out.violations.first() {
                        println!("DIFFERENT-VIOLATION class={} step={} detail={}", v.class, v.step, v.detail);
                        println!("VIOLATION property={} replay={}", check.id(), path);
                        1
                    } else {
                        println!("NOT-REPRODUCED the recorded violation ({}) does not occur on this tree", want_class);
                        0
                    }
                }
            }
        }
    }
}

struct Slot {
    out: Result<RunOut, String>,
}

static CHILD_COUNTER: AtomicU64 = AtomicU64::new(0);

struct ChildOut {
    code: Option<i32>,
}

fn child_timeout_s() -> u64 {
    std::env::var("VERIF_CHILD_TIMEOUT_S").ok().and_then(|v| v.parse().ok()).unwrap_or(240)
}
pub const NONDET_CLASS: &str = "differs-between-fresh-processes";

/// run one scenario in a fresh child process of this binary
pub fn execute_isolated(check: &dyn Check, verif_dir: &str, scenario: &J) -> Result<RunOut, String> {
    let dir = format!("{}/sim/scratch", verif_dir);
    let _ = std::fs::create_dir_all(&dir);
    let path = format!("{}/scn-{}-{}.json", dir, std::process::id(), CHILD_COUNTER.fetch_add(1, Ordering::SeqCst));
    std::fs::write(&path, scenario.to_string()).map_err(|e| format!("write scenario: {}", e))?;
    let exe = std::env::current_exe().map_err(|e| e.to_string())?;
    let out_path = format!("{}.out", path);
    let out_file = std::fs::File::create(&out_path).map_err(|e| format!("child output file: {}", e))?;
    // a scenario that may make the code under test allocate without bound gets a capped address space
    let mut cmd = if check.child_death_class(scenario).is_some() {
        let mut c = std::process::Command::new("/bin/sh");
        c.arg("-c").arg("ulimit -v 8388608; exec \"$0\" \"$@\"").arg(&exe);
        c
    } else {
        std::process::Command::new(&exe)
    };
    let mut child = cmd
        .arg(check.id())
        .arg("--exec-scenario")
        .arg(&path)
        .stdin(std::process::Stdio::null())
        .stdout(out_file)
        .stderr(std::process::Stdio::null())
        .spawn()
        .map_err(|e| format!("spawn child: {}", e))?;
    // bounded wait: a scenario that does not finish (e.g. code under test blocking on a real lock
    // while a simulated thread is parked) decides nothing; it is killed and counted, never waited for
    let limit = std::time::Duration::from_secs(child_timeout_s());
    let t0 = Instant::now();
    let status = loop {
        match child.try_wait() {
            Ok(Some(st)) => break Some(st),
            Ok(None) => {
                if t0.elapsed() > limit {
                    let _ = child.kill();
                    let _ = child.wait();
                    break None;
                }
                std::thread::sleep(std::time::Duration::from_millis(20));
            }
            Err(e) => return Err(format!("wait child: {}", e)),
        }
    };
    let _ = std::fs::remove_file(&path);
    let text = std::fs::read_to_string(&out_path).unwrap_or_default();
    let _ = std::fs::remove_file(&out_path);
    let status = match status {
        Some(s) => s,
        None => {
            let mut out = RunOut::default();
            let mut h = crate::prng::Hasher64::new();
            h.bytes(scenario.to_string().as_bytes());
            out.hash = h.finish();
            match check.child_timeout_class(scenario) {
                Some(class) => {
                    out.nontrivial = true;
                    out.violate(Violation::new(class, 0, format!("the scenario was still running after {} s in its own process and was killed", limit.as_secs())));
                }
                None => out.count("probe.scenarios_killed_after_timeout(inconclusive)", 1),
            }
            return Ok(out);
        }
    };
    let outp = ChildOut { code: status.code() };
    let line = match text.lines().rev().find(|l| l.starts_with("RUNOUT ")) {
        Some(l) => l,
        None => {
            if let Some(class) = check.child_death_class(scenario) {
                use std::os::unix::process::ExitStatusExt;
                let mut out = RunOut::default();
                let mut h = crate::prng::Hasher64::new();
                h.bytes(scenario.to_string().as_bytes());
                out.hash = h.finish();
                out.nontrivial = true;
                out.violate(Violation::new(class, 0, format!("the process executing the scenario died without returning (exit status {:?}, signal {:?})", outp.code, status.signal())));
                return Ok(out);
            }
            return Err(format!("child produced no result (exit {:?})", outp.code));
        }
    };
    let j = json::parse(&line["RUNOUT ".len()..])?;
    if let Some(e) = j.get("error").and_then(|x| x.as_str()) {
        return Err(e.to_string());
    }
    RunOut::from_json(&j)
}

/// Every scenario runs either in a fresh child process (isolate) or at least on a fresh OS
/// thread, so that thread-local state of the code under test (caches, counters) never leaks from
/// one scenario into the next: a scenario's outcome is a function of the scenario alone, and a
/// replay of its file (main thread of a fresh process) sees the same initial conditions.
fn exec_dispatch(check: &dyn Check, verif_dir: &str, scenario: &J) -> Result<RunOut, String> {
    if check.isolate_scenario(scenario) {
        return execute_isolated(check, verif_dir, scenario);
    }
    std::thread::scope(|s| {
        let h = std::thread::Builder::new()
            .stack_size(4 << 20)
            .spawn_scoped(s, || check.execute(scenario))
            .map_err(|e| format!("cannot spawn scenario thread: {}", e))?;
        match h.join() {
            Ok(r) => r,
            Err(p) => {
                let msg = if let Some(s) = p.downcast_ref::<&str>() {
                    s.to_string()
                } else if let Some(s) = p.downcast_ref::<String>() {
                    s.clone()
                } else {
                    "panic".to_string()
                };
                Err(format!("harness panicked while executing a scenario: {}", msg))
            }
        }
    })
}

pub fn run_check(check: &dyn Check, opts: &Options) -> i32 {
    if let Some(path) = &opts.replay {
        return replay(check, path);
    }
    if let Some(path) = &opts.exec_scenario {
        // child side of execute_isolated
        let res = std::fs::read_to_string(path).map_err(|e| e.to_string()).and_then(|t| json::parse(&t)).and_then(|j| {
            match std::panic::catch_unwind(std::panic::AssertUnwindSafe(|| check.execute(&j))) {
                Ok(r) => r,
                Err(_) => Err("harness panicked while executing a scenario".to_string()),
            }
        });
        match res {
            Ok(out) => println!("RUNOUT {}", out.to_json().to_string()),
            Err(e) => println!("RUNOUT {}", J::obj().set("error", J::str(e)).to_string()),
        }
        return 0;
    }
    let id = check.id();
    if let Some(n) = opts.dump {
        for i in 0..n {
            let mut rng = Rng::new(derive_seed(opts.seed, id, i));
            let sc = check.generate(&mut rng, opts.tier, i);
            let out = exec_dispatch(check, &opts.verif_dir, &sc);
            match out {
                Ok(o) => println!("RUN {} hash={} violations={:?} scenario={}", i, hash_hex(o.hash), o.violations.iter().map(|v| v.class.clone()).collect::<Vec<_>>(), sc.to_string()),
                Err(e) => println!("RUN {} error={} scenario={}", i, e, sc.to_string()),
            }
        }
        return 0;
    }
    let t0 = Instant::now();
    let n_runs = opts.runs_override.unwrap_or_else(|| check.runs(opts.tier));
    let budget = check.budget_s(opts.tier);
    println!("SEED property={} VERIF_SEED={} tier={} runs={}", id, opts.seed, opts.tier.name(), n_runs);

    let kf = match load_known_findings(&format!("{}/known_findings.json", opts.verif_dir)) {
        Ok(k) => k,
        Err(e) => {
            eprintln!("HARNESS-ERROR known_findings.json: {}", e);
            return 2;
        }
    };

    let next = AtomicU64::new(0);
    let results: Mutex<BTreeMap<u64, Slot>> = Mutex::new(BTreeMap::new());
    // watchdog: a scenario that never returns (code under test not terminating) must not hang the
    // check.  If no scenario completes for 10 minutes the process ends with a harness error.
    let progress = std::sync::Arc::new(AtomicU64::new(0));
    let done_flag = std::sync::Arc::new(AtomicU64::new(0));
    {
        let progress = progress.clone();
        let done_flag = done_flag.clone();
        let id = id.to_string();
        std::thread::spawn(move || {
            let mut last = 0u64;
            let mut since = Instant::now();
            loop {
                std::thread::sleep(std::time::Duration::from_secs(2));
                if done_flag.load(Ordering::SeqCst) != 0 {
                    return;
                }
                let p = progress.load(Ordering::SeqCst);
                if p != last {
                    last = p;
                    since = Instant::now();
                } else if since.elapsed().as_secs() > 600 {
                    eprintln!("HARNESS-ERROR property={}: no scenario finished for 600 s (a scenario does not terminate); giving up", id);
                    std::process::exit(2);
                }
            }
        });
    }
    let workers = std::env::var("VERIF_WORKERS").ok().and_then(|w| w.parse::<usize>().ok()).unwrap_or_else(|| check.workers()).max(1);
    std::thread::scope(|s| {
        for _ in 0..workers {
            s.spawn(|| loop {
                if t0.elapsed().as_secs_f64() > budget {
                    break;
                }
                let i = next.fetch_add(1, Ordering::SeqCst);
                if i >= n_runs {
                    break;
                }
                let mut rng = Rng::new(derive_seed(opts.seed, id, i));
                let scenario = check.generate(&mut rng, opts.tier, i);
                // a panic inside the harness itself is a harness error (exit 2), never a verdict
                let out = match std::panic::catch_unwind(std::panic::AssertUnwindSafe(|| exec_dispatch(check, &opts.verif_dir, &scenario))) {
                    Ok(o) => o,
                    Err(p) => {
                        let msg = if let Some(s) = p.downcast_ref::<&str>() {
                            s.to_string()
                        } else if let Some(s) = p.downcast_ref::<String>() {
                            s.clone()
                        } else {
                            "panic".to_string()
                        };
                        Err(format!("harness panicked while executing a scenario: {}", msg))
                    }
                };
                // keep memory flat over millions of runs: scenarios are regenerated from the seed
                // when needed, history samples are kept for the first runs only
                let mut out = out;
                if i >= 64 {
                    if let Ok(o) = out.as_mut() {
                        o.sample = None;
                    }
                }
                drop(scenario);
                progress.fetch_add(1, Ordering::SeqCst);
                results.lock().unwrap().insert(i, Slot { out });
            });
        }
    });
    done_flag.store(1, Ordering::SeqCst);
    let results = results.into_inner().unwrap();
    let scenario_of = |i: u64| -> J {
        let mut rng = Rng::new(derive_seed(opts.seed, id, i));
        check.generate(&mut rng, opts.tier, i)
    };
    // completed prefix: indices are claimed in order, every claimed index finishes
    let completed = results.len() as u64;

    let mut counters: BTreeMap<String, u64> = BTreeMap::new();
    let mut distinct: BTreeSet<u64> = BTreeSet::new();
    let mut all_hashes: BTreeSet<u64> = BTreeSet::new();
    let mut nontrivial_runs = 0u64;
    let mut sim_steps = 0u64;
    let mut samples: Vec<J> = vec![];
    let mut harness_errors: Vec<String> = vec![];
    // class -> (run index, violation)
    let mut unlisted: BTreeMap<String, (u64, Violation)> = BTreeMap::new();
    let mut unlisted_total = 0u64;
    let mut known_hits: BTreeMap<usize, (u64, String)> = BTreeMap::new();
    let mut batch = crate::prng::Hasher64::new();

    for (i, slot) in &results {
        match &slot.out {
            Err(e) => harness_errors.push(format!("run {}: {}", i, e)),
            Ok(out) => {
                batch.u64(out.hash);
                all_hashes.insert(out.hash);
                if out.nontrivial {
                    nontrivial_runs += 1;
                    distinct.insert(out.hash);
                }
                sim_steps += out.sim_steps;
                for (k, v) in &out.counters {
                    *counters.entry(k.clone()).or_insert(0) += v;
                }
                if samples.len() < 3 && out.nontrivial {
                    samples.push(
                        J::obj()
                            .set("run", J::uint(*i))
                            .set("scenario", scenario_of(*i))
                            .set("history_head", out.sample.clone().unwrap_or(J::Null)),
                    );
                }
                for v in &out.violations {
                    match matches_finding(id, v, &kf) {
                        Some(k) => {
                            let e = known_hits.entry(k).or_insert((0, v.detail.clone()));
                            e.0 += 1;
                        }
                        None => {
                            unlisted_total += 1;
                            unlisted.entry(v.class.clone()).or_insert((*i, v.clone()));
                        }
                    }
                }
            }
        }
    }
    if samples.is_empty() {
        if let Some((i, _slot)) = results.iter().next() {
            samples.push(J::obj().set("run", J::uint(*i)).set("scenario", scenario_of(*i)));
        }
    }

    if !harness_errors.is_empty() {
        for e in harness_errors.iter().take(5) {
            eprintln!("HARNESS-ERROR {}", e);
        }
        return 2;
    }

    // report known findings
    for (k, (n, detail)) in &known_hits {
        println!(
            "KNOWN-FINDING: property={} {} [{}] ({} occurrences in this run; e.g. {})",
            id, kf[*k].description, kf[*k].key, n, detail
        );
    }

    // minimise, persist and re-verify unlisted violations (one per class, at most 4 classes)
    let mut exit = 0;
    let mut reported: Vec<J> = vec![];
    let replay_dir = format!("{}/replay", opts.verif_dir);
    let _ = std::fs::create_dir_all(&replay_dir);
    for (class, (run, v)) in unlisted.iter().take(4) {
        let mut scenario = scenario_of(*run);
        let mut viol = v.clone();
        let mut hash = results[run].out.as_ref().map(|o| o.hash).unwrap_or(0);
        let mut nondet = false;
        if check.isolate() && check.nondeterminism_is_violation() {
            if let Ok(again) = exec_dispatch(check, &opts.verif_dir, &scenario) {
                if again.hash != hash {
                    nondet = true;
                    viol = Violation::new(
                        NONDET_CLASS,
                        0,
                        format!(
                            "the same scenario executed in two fresh processes gave different outcomes (hash {} vs {}); first outcome: {} - {}",
                            hash_hex(hash), hash_hex(again.hash), v.class, v.detail
                        ),
                    );
                    hash = 0;
                }
            }
        }
        // greedy minimisation
        let tmin = Instant::now();
        let mut execs = 0;
        let mut shrunk_steps = 0;
        'outer: loop {
            if nondet {
                break;
            }
            if tmin.elapsed().as_secs_f64() > 30.0 || execs > 400 {
                break;
            }
            for cand in check.shrink(&scenario) {
                execs += 1;
                if let Ok(out) = exec_dispatch(check, &opts.verif_dir, &cand) {
                    if let Some(v2) = out.violations.iter().find(|x| &x.class == class) {
                        scenario = cand;
                        viol = v2.clone();
                        hash = out.hash;
                        shrunk_steps += 1;
                        continue 'outer;
                    }
                }
                if tmin.elapsed().as_secs_f64() > 30.0 || execs > 400 {
                    break 'outer;
                }
            }
            break;
        }
        let fname = format!(
            "{}/{}-{}-{}-{}.json",
            replay_dir,
            id,
            opts.seed,
            run,
            class.replace('/', "_").replace(|c: char| !c.is_ascii_alphanumeric() && c != '_' && c != '-', "")
        );
        let file = J::obj()
            .set("property", J::str(id))
            .set("seed", J::uint(opts.seed))
            .set("run", J::uint(*run))
            .set("minimised_steps", J::uint(shrunk_steps))
            .set("violation", viol.to_json())
            .set("history_hash", J::str(hash_hex(hash)))
            .set("scenario", scenario.clone());
        if let Err(e) = std::fs::write(&fname, file.to_pretty()) {
            eprintln!("HARNESS-ERROR cannot write replay file {}: {}", fname, e);
            return 2;
        }
        // replay in a fresh process; must reproduce exactly
        if !opts.no_respawn {
            let exe = std::env::current_exe().unwrap();
            let outp = std::process::Command::new(exe)
                .arg(id)
                .arg("--replay")
                .arg(&fname)
                .output();
            match outp {
                Ok(o) if o.status.code() == Some(1) => {}
                Ok(o) if nondet && o.status.code() == Some(0) => {
                    // observed once in this run, but 8 further fresh processes agreed: too rare to
                    // replay, so it is not reported (the harness itself is deterministic, see
                    // selftest/determinism.sh; the randomness is the code under test's)
                    println!("UNCONFIRMED property={} class={} run={} {}", id, viol.class, run, viol.detail);
                    let _ = std::fs::remove_file(&fname);
                    continue;
                }
                Ok(o) => {
                    eprintln!(
                        "HARNESS-ERROR replay of {} in a fresh process did not reproduce (exit {:?}): harness not deterministic\n{}",
                        fname,
                        o.status.code(),
                        String::from_utf8_lossy(&o.stdout)
                    );
                    return 2;
                }
                Err(e) => {
                    eprintln!("HARNESS-ERROR cannot respawn for replay: {}", e);
                    return 2;
                }
            }
        }
        println!(
            "VIOLATION-DETAIL property={} class={} run={} step={} {}",
            id, viol.class, run, viol.step, viol.detail
        );
        println!("VIOLATION property={} replay={}", id, fname);
        reported.push(J::obj().set("class", J::str(class.clone())).set("replay", J::str(fname)).set("detail", J::str(viol.detail.clone())));
        exit = 1;
    }

    // evidence
    let wall = t0.elapsed().as_secs_f64();
    let mut faults = J::obj();
    let mut probes = J::obj();
    let mut other = J::obj();
    for (k, v) in &counters {
        if let Some(r) = k.strip_prefix("fault.") {
            faults.put(r, J::uint(*v));
        } else if let Some(r) = k.strip_prefix("probe.") {
            probes.put(r, J::uint(*v));
        } else {
            other.put(k.clone(), J::uint(*v));
        }
    }
    let mut warnings = J::arr();
    for p in check.expected_probes() {
        if counters.get(p).copied().unwrap_or(0) == 0 {
            warnings.push(J::str(format!("coverage warning: {} stayed at zero", p)));
        }
    }
    if completed < n_runs {
        warnings.push(J::str(format!("budget reached: {} of {} planned runs executed", completed, n_runs)));
    }
    let mut kfj = J::arr();
    for (k, (n, _)) in &known_hits {
        kfj.push(J::obj().set("key", J::str(kf[*k].key.clone())).set("occurrences", J::uint(*n)));
    }
    let cov = J::obj()
        .set("evaluations", J::uint(completed))
        .set("distinct_nontrivial", J::uint(distinct.len() as u64))
        .set("rule", J::str(check.rule()))
        .set("samples", J::Arr(samples))
        .set("nontrivial_runs", J::uint(nontrivial_runs))
        .set("distinct_histories_all", J::uint(all_hashes.len() as u64))
        .set("batch_hash", J::str(hash_hex(batch.finish())))
        .set("planned_runs", J::uint(n_runs))
        .set("runs_per_hour", J::num((completed as f64 / wall.max(1e-9) * 3600.0).round()))
        .set("seeds_per_hour", J::num((completed as f64 / wall.max(1e-9) * 3600.0).round()))
        .set("seeds_note", J::str("every run has its own seed splitmix(VERIF_SEED, property, run index); runs are independent simulated executions"))
        .set("sim_steps", J::uint(sim_steps))
        .set("sim_steps_note", J::str("simulated time = Monte-Carlo proposals / scheduler steps executed under observation"))
        .set("faults_fired", faults)
        .set("probes", probes)
        .set("counters", other)
        .set("workers", J::uint(workers as u64))
        .set("components_real", J::Arr(check.components_real().into_iter().map(J::str).collect()))
        .set("components_stub", J::Arr(check.components_stub().into_iter().map(J::str).collect()))
        .set("known_findings_matched", kfj)
        .set("unlisted_violations_total", J::uint(unlisted_total))
        .set("violations_reported", J::Arr(reported))
        .set("warnings", warnings);
    let ev = J::obj()
        .set("property_id", J::str(id))
        .set("tier", J::str(opts.tier.name()))
        .set("seed", J::uint(opts.seed))
        .set("level", J::str(check.level()))
        .set("coverage", cov)
        .set("assumptions", J::Arr(check.assumptions().into_iter().map(J::str).collect()))
        .set("wall_s", J::num((wall * 1000.0).round() / 1000.0))
        .set("violations", J::uint(unlisted_total));
    let evdir = format!("{}/evidence", opts.verif_dir);
    let _ = std::fs::create_dir_all(&evdir);
    let evpath = format!("{}/{}.json", evdir, id);
    if let Err(e) = std::fs::write(&evpath, ev.to_pretty()) {
        eprintln!("HARNESS-ERROR cannot write evidence {}: {}", evpath, e);
        return 2;
    }
    println!(
        "DONE property={} tier={} runs={} distinct_nontrivial={} sim_steps={} violations={} known={} wall_s={:.1} batch_hash={}",
        id,
        opts.tier.name(),
        completed,
        distinct.len(),
        sim_steps,
        unlisted_total,
        known_hits.values().map(|x| x.0).sum::<u64>(),
        wall,
        hash_hex(batch.finish())
    );
    exit
}
