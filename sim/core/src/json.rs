//! Minimal JSON value, exact parser and writer.
//!
//! Numbers are parsed with Rust's `str::parse::<f64>` (correctly rounded), *not* with
//! serde_json, so that oracles never depend on the float parser that property C11 is about.
//! The raw number text is kept as well.

use std::collections::BTreeMap;
use std::fmt::Write as _;

#[derive(Clone, Debug, PartialEq)]
pub enum J {
    Null,
    Bool(bool),
    Num(f64, String),
    Str(String),
    Arr(Vec<J>),
    Obj(Vec<(String, J)>),
}

impl J {
    pub fn obj() -> J {
        J::Obj(Vec::new())
    }
    pub fn arr() -> J {
        J::Arr(Vec::new())
    }
    pub fn num(x: f64) -> J {
        if x.is_finite() {
            J::Num(x, fmt_f64(x))
        } else {
            // JSON has no NaN/inf: keep them visible as strings
            J::Str(format!("{}", x))
        }
    }
    pub fn int(x: i64) -> J {
        J::Num(x as f64, format!("{}", x))
    }
    pub fn uint(x: u64) -> J {
        J::Num(x as f64, format!("{}", x))
    }
    pub fn str<S: Into<String>>(s: S) -> J {
        J::Str(s.into())
    }
    /// f64 stored losslessly as a hex bit pattern string (plus readable text)
    pub fn f64bits(x: f64) -> J {
        J::Str(format!("0x{:016x}|{:?}", x.to_bits(), x))
    }
    pub fn opt_f64bits(x: Option<f64>) -> J {
        match x {
            None => J::Null,
            Some(v) => J::f64bits(v),
        }
    }
    pub fn as_f64bits(&self) -> Option<f64> {
        match self {
            J::Str(s) if s.starts_with("0x") && s.len() >= 18 => {
                u64::from_str_radix(&s[2..18], 16).ok().map(f64::from_bits)
            }
            J::Num(x, _) => Some(*x),
            _ => None,
        }
    }
    pub fn set<S: Into<String>>(mut self, k: S, v: J) -> J {
        if let J::Obj(ref mut m) = self {
            let k = k.into();
            if let Some(e) = m.iter_mut().find(|e| e.0 == k) {
                e.1 = v;
            } else {
                m.push((k, v));
            }
        }
        self
    }
    pub fn put<S: Into<String>>(&mut self, k: S, v: J) {
        if let J::Obj(ref mut m) = self {
            let k = k.into();
            if let Some(e) = m.iter_mut().find(|e| e.0 == k) {
                e.1 = v;
            } else {
                m.push((k, v));
            }
        }
    }
    pub fn push(&mut self, v: J) {
        if let J::Arr(ref mut a) = self {
            a.push(v);
        }
    }
    pub fn get(&self, k: &str) -> Option<&J> {
        match self {
            J::Obj(m) => m.iter().find(|e| e.0 == k).map(|e| &e.1),
            _ => None,
        }
    }
    pub fn at(&self, i: usize) -> Option<&J> {
        match self {
            J::Arr(a) => a.get(i),
            _ => None,
        }
    }
    pub fn path(&self, p: &[&str]) -> Option<&J> {
        let mut cur = self;
        for k in p {
            cur = match cur {
                J::Obj(_) => cur.get(k)?,
                J::Arr(a) => a.get(k.parse::<usize>().ok()?)?,
                _ => return None,
            };
        }
        Some(cur)
    }
    pub fn as_f64(&self) -> Option<f64> {
        match self {
            J::Num(x, _) => Some(*x),
            _ => None,
        }
    }
    pub fn as_u64(&self) -> Option<u64> {
        match self {
            J::Num(_, raw) => raw.parse::<u64>().ok(),
            _ => None,
        }
    }
    pub fn as_i64(&self) -> Option<i64> {
        match self {
            J::Num(_, raw) => raw.parse::<i64>().ok(),
            _ => None,
        }
    }
    pub fn as_str(&self) -> Option<&str> {
        match self {
            J::Str(s) => Some(s),
            _ => None,
        }
    }
    pub fn as_bool(&self) -> Option<bool> {
        match self {
            J::Bool(b) => Some(*b),
            _ => None,
        }
    }
    pub fn as_arr(&self) -> Option<&Vec<J>> {
        match self {
            J::Arr(a) => Some(a),
            _ => None,
        }
    }
    pub fn as_obj(&self) -> Option<&Vec<(String, J)>> {
        match self {
            J::Obj(a) => Some(a),
            _ => None,
        }
    }
    pub fn is_null(&self) -> bool {
        matches!(self, J::Null)
    }

    pub fn from_map(m: &BTreeMap<String, u64>) -> J {
        let mut o = J::obj();
        for (k, v) in m {
            o.put(k.clone(), J::uint(*v));
        }
        o
    }

    pub fn to_string(&self) -> String {
        let mut s = String::new();
        self.write(&mut s, None, 0);
        s
    }
    pub fn to_pretty(&self) -> String {
        let mut s = String::new();
        self.write(&mut s, Some(1), 0);
        s.push('\n');
        s
    }

    fn write(&self, out: &mut String, indent: Option<usize>, depth: usize) {
        let nl = |out: &mut String, d: usize| {
            if let Some(w) = indent {
                out.push('\n');
                for _ in 0..(w * d) {
                    out.push(' ');
                }
            }
        };
        match self {
            J::Null => out.push_str("null"),
            J::Bool(b) => out.push_str(if *b { "true" } else { "false" }),
            J::Num(_, raw) => out.push_str(raw),
            J::Str(s) => write_str(out, s),
            J::Arr(a) => {
                out.push('[');
                for (i, v) in a.iter().enumerate() {
                    if i > 0 {
                        out.push(',');
                    }
                    nl(out, depth + 1);
                    v.write(out, indent, depth + 1);
                }
                if !a.is_empty() {
                    nl(out, depth);
                }
                out.push(']');
            }
            J::Obj(m) => {
                out.push('{');
                for (i, (k, v)) in m.iter().enumerate() {
                    if i > 0 {
                        out.push(',');
                    }
                    nl(out, depth + 1);
                    write_str(out, k);
                    out.push(':');
                    if indent.is_some() {
                        out.push(' ');
                    }
                    v.write(out, indent, depth + 1);
                }
                if !m.is_empty() {
                    nl(out, depth);
                }
                out.push('}');
            }
        }
    }
}

pub fn fmt_f64(x: f64) -> String {
    if x == x.trunc() && x.abs() < 1e15 {
        format!("{:.1}", x)
    } else {
        format!("{:?}", x)
    }
}

fn write_str(out: &mut String, s: &str) {
    out.push('"');
    for c in s.chars() {
        match c {
            '"' => out.push_str("\\\""),
            '\\' => out.push_str("\\\\"),
            '\n' => out.push_str("\\n"),
            '\r' => out.push_str("\\r"),
            '\t' => out.push_str("\\t"),
            c if (c as u32) < 0x20 => {
                let _ = write!(out, "\\u{:04x}", c as u32);
            }
            c => out.push(c),
        }
    }
    out.push('"');
}

pub fn parse(text: &str) -> Result<J, String> {
    let b = text.as_bytes();
    let mut p = Parser { b, i: 0 };
    p.ws();
    let v = p.value()?;
    p.ws();
    if p.i != b.len() {
        return Err(format!("trailing data at byte {}", p.i));
    }
    Ok(v)
}

struct Parser<'a> {
    b: &'a [u8],
    i: usize,
}

impl<'a> Parser<'a> {
    fn ws(&mut self) {
        while self.i < self.b.len() && matches!(self.b[self.i], b' ' | b'\n' | b'\r' | b'\t') {
            self.i += 1;
        }
    }
    fn peek(&self) -> Option<u8> {
        self.b.get(self.i).copied()
    }
    fn expect(&mut self, c: u8) -> Result<(), String> {
        if self.peek() == Some(c) {
            self.i += 1;
            Ok(())
        } else {
            Err(format!("expected '{}' at byte {}", c as char, self.i))
        }
    }
    fn lit(&mut self, s: &str, v: J) -> Result<J, String> {
        if self.b[self.i..].starts_with(s.as_bytes()) {
            self.i += s.len();
            Ok(v)
        } else {
            Err(format!("bad literal at byte {}", self.i))
        }
    }
    fn value(&mut self) -> Result<J, String> {
        match self.peek() {
            None => Err("unexpected end".into()),
            Some(b'{') => {
                self.i += 1;
                let mut m = Vec::new();
                self.ws();
                if self.peek() == Some(b'}') {
                    self.i += 1;
                    return Ok(J::Obj(m));
                }
                loop {
                    self.ws();
                    let k = self.string()?;
                    self.ws();
                    self.expect(b':')?;
                    self.ws();
                    let v = self.value()?;
                    m.push((k, v));
                    self.ws();
                    match self.peek() {
                        Some(b',') => self.i += 1,
                        Some(b'}') => {
                            self.i += 1;
                            return Ok(J::Obj(m));
                        }
                        _ => return Err(format!("expected , or }} at byte {}", self.i)),
                    }
                }
            }
            Some(b'[') => {
                self.i += 1;
                let mut a = Vec::new();
                self.ws();
                if self.peek() == Some(b']') {
                    self.i += 1;
                    return Ok(J::Arr(a));
                }
                loop {
                    self.ws();
                    a.push(self.value()?);
                    self.ws();
                    match self.peek() {
                        Some(b',') => self.i += 1,
                        Some(b']') => {
                            self.i += 1;
                            return Ok(J::Arr(a));
                        }
                        _ => return Err(format!("expected , or ] at byte {}", self.i)),
                    }
                }
            }
            Some(b'"') => Ok(J::Str(self.string()?)),
            Some(b't') => self.lit("true", J::Bool(true)),
            Some(b'f') => self.lit("false", J::Bool(false)),
            Some(b'n') => self.lit("null", J::Null),
            Some(_) => {
                let start = self.i;
                while self.i < self.b.len()
                    && matches!(self.b[self.i], b'0'..=b'9' | b'-' | b'+' | b'.' | b'e' | b'E')
                {
                    self.i += 1;
                }
                let raw = std::str::from_utf8(&self.b[start..self.i]).map_err(|e| e.to_string())?;
                if raw.is_empty() {
                    return Err(format!("unexpected byte at {}", start));
                }
                let x: f64 = raw.parse().map_err(|_| format!("bad number '{}'", raw))?;
                Ok(J::Num(x, raw.to_string()))
            }
        }
    }
    fn string(&mut self) -> Result<String, String> {
        self.expect(b'"')?;
        let mut out: Vec<u8> = Vec::new();
        loop {
            let c = self.peek().ok_or("unterminated string")?;
            self.i += 1;
            match c {
                b'"' => break,
                b'\\' => {
                    let e = self.peek().ok_or("bad escape")?;
                    self.i += 1;
                    match e {
                        b'n' => out.push(b'\n'),
                        b't' => out.push(b'\t'),
                        b'r' => out.push(b'\r'),
                        b'b' => out.push(8),
                        b'f' => out.push(12),
                        b'u' => {
                            let h = std::str::from_utf8(&self.b[self.i..self.i + 4])
                                .map_err(|e| e.to_string())?;
                            let cp = u32::from_str_radix(h, 16).map_err(|e| e.to_string())?;
                            self.i += 4;
                            let ch = char::from_u32(cp).unwrap_or('?');
                            let mut buf = [0u8; 4];
                            out.extend_from_slice(ch.encode_utf8(&mut buf).as_bytes());
                        }
                        other => out.push(other),
                    }
                }
                c => out.push(c),
            }
        }
        String::from_utf8(out).map_err(|e| e.to_string())
    }
}

#[cfg(test)]
mod t {
    use super::*;
    #[test]
    fn roundtrip() {
        let j = J::obj()
            .set("a", J::num(0.1))
            .set("b", J::Arr(vec![J::int(3), J::Null, J::str("x\"y")]))
            .set("c", J::f64bits(-0.0));
        let s = j.to_pretty();
        let k = parse(&s).unwrap();
        assert_eq!(k.get("a").unwrap().as_f64(), Some(0.1));
        assert_eq!(k.path(&["b", "0"]).unwrap().as_u64(), Some(3));
        assert_eq!(k.get("c").unwrap().as_f64bits().unwrap().to_bits(), (-0.0f64).to_bits());
    }
}
