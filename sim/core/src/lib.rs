pub mod cliproc;
pub mod driver;
pub mod json;
pub mod prng;
pub mod stats;
