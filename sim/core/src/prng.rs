//! In-tree PRNG: SplitMix64 for seed derivation, xoshiro256** for streams.
//! One integer decides everything: every choice made by a simulated run is drawn from an
//! `Rng` derived from (master seed, property tag, run index).

#[inline]
pub fn splitmix64(state: &mut u64) -> u64 {
    *state = state.wrapping_add(0x9E37_79B9_7F4A_7C15);
    let mut z = *state;
    z = (z ^ (z >> 30)).wrapping_mul(0xBF58_476D_1CE4_E5B9);
    z = (z ^ (z >> 27)).wrapping_mul(0x94D0_49BB_1331_11EB);
    z ^ (z >> 31)
}

/// FNV-1a 64 over bytes; used for tags and history hashes.
pub fn fnv1a(bytes: &[u8]) -> u64 {
    let mut h: u64 = 0xcbf2_9ce4_8422_2325;
    for b in bytes {
        h ^= *b as u64;
        h = h.wrapping_mul(0x0000_0100_0000_01B3);
    }
    h
}

#[derive(Clone, Copy, Default)]
pub struct Hasher64(pub u64);

impl Hasher64 {
    pub fn new() -> Self {
        Hasher64(0xcbf2_9ce4_8422_2325)
    }
    #[inline]
    pub fn u64(&mut self, v: u64) {
        // mix 8 bytes at once (not FNV proper, but a fixed, deterministic mixer)
        self.0 ^= v;
        self.0 = self.0.wrapping_mul(0x0000_0100_0000_01B3);
        self.0 ^= self.0 >> 29;
        self.0 = self.0.wrapping_mul(0x9E37_79B9_7F4A_7C15);
    }
    pub fn f64(&mut self, v: f64) {
        self.u64(v.to_bits())
    }
    pub fn bytes(&mut self, b: &[u8]) {
        self.u64(fnv1a(b));
    }
    pub fn opt_f64(&mut self, v: Option<f64>) {
        match v {
            None => self.u64(0xdead_beef),
            Some(x) => self.f64(x),
        }
    }
    pub fn finish(&self) -> u64 {
        self.0
    }
}

pub fn derive_seed(master: u64, tag: &str, index: u64) -> u64 {
    let mut s = master ^ fnv1a(tag.as_bytes()).rotate_left(17);
    let a = splitmix64(&mut s);
    let mut t = a ^ index.wrapping_mul(0xD6E8_FEB8_6659_FD93);
    splitmix64(&mut t)
}

#[derive(Clone, Debug)]
pub struct Rng {
    s: [u64; 4],
}

impl Rng {
    pub fn new(seed: u64) -> Rng {
        let mut st = seed;
        let s = [
            splitmix64(&mut st),
            splitmix64(&mut st),
            splitmix64(&mut st),
            splitmix64(&mut st),
        ];
        Rng { s }
    }

    #[inline]
    pub fn next_u64(&mut self) -> u64 {
        let result = self.s[1].wrapping_mul(5).rotate_left(7).wrapping_mul(9);
        let t = self.s[1] << 17;
        self.s[2] ^= self.s[0];
        self.s[3] ^= self.s[1];
        self.s[1] ^= self.s[2];
        self.s[0] ^= self.s[3];
        self.s[2] ^= t;
        self.s[3] = self.s[3].rotate_left(45);
        result
    }

    /// uniform in [0,1)
    #[inline]
    pub fn f64(&mut self) -> f64 {
        (self.next_u64() >> 11) as f64 * (1.0 / (1u64 << 53) as f64)
    }

    /// uniform integer in [0, n)
    pub fn below(&mut self, n: u64) -> u64 {
        if n == 0 {
            return 0;
        }
        // Lemire-free simple rejection to stay exactly uniform and deterministic
        let zone = u64::MAX - (u64::MAX % n);
        loop {
            let v = self.next_u64();
            if v < zone {
                return v % n;
            }
        }
    }

    pub fn range_u64(&mut self, lo: u64, hi_incl: u64) -> u64 {
        lo + self.below(hi_incl - lo + 1)
    }

    pub fn range_f64(&mut self, lo: f64, hi: f64) -> f64 {
        lo + (hi - lo) * self.f64()
    }

    /// log-uniform in [lo, hi], both > 0
    pub fn log_range(&mut self, lo: f64, hi: f64) -> f64 {
        (lo.ln() + (hi.ln() - lo.ln()) * self.f64()).exp()
    }

    pub fn chance(&mut self, p: f64) -> bool {
        self.f64() < p
    }

    pub fn pick<'a, T>(&mut self, xs: &'a [T]) -> &'a T {
        &xs[self.below(xs.len() as u64) as usize]
    }

    pub fn pick_weighted<'a, T>(&mut self, xs: &'a [(T, u32)]) -> &'a T {
        let total: u64 = xs.iter().map(|x| x.1 as u64).sum();
        let mut r = self.below(total);
        for (v, w) in xs {
            if r < *w as u64 {
                return v;
            }
            r -= *w as u64;
        }
        &xs[xs.len() - 1].0
    }

    pub fn fork(&mut self) -> Rng {
        Rng::new(self.next_u64())
    }
}
