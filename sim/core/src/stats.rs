//! Distribution-free confidence bounds used by the frequency clauses (C07, C18).

/// two-sided Hoeffding half-width for a Bernoulli mean from n samples at confidence 1-delta
pub fn hoeffding_eps(n: u64, delta: f64) -> f64 {
    if n == 0 {
        return 1.0;
    }
    ((2.0 / delta).ln() / (2.0 * n as f64)).sqrt()
}

/// per-interval delta: every statistical comparison of one invocation uses 1e-18, and an invocation
/// makes fewer than 10^6 comparisons (C18 thorough: 320 scenarios x up to 100 loops x ~10 rungs x 3), so a correct implementation is flagged with
/// probability < 1e-12 per invocation for any seed.
pub const DELTA: f64 = 1e-18;

#[derive(Clone, Copy, Debug)]
pub struct Interval {
    pub lo: f64,
    pub hi: f64,
}

impl Interval {
    pub fn intersect(self, o: Interval) -> Interval {
        Interval { lo: self.lo.max(o.lo), hi: self.hi.min(o.hi) }
    }
    pub fn is_empty(self) -> bool {
        !(self.lo <= self.hi)
    }
    pub fn contains(self, x: f64) -> bool {
        self.lo <= x && x <= self.hi
    }
}

/// confidence interval for acceptance probability from counts
pub fn prob_interval(acc: u64, n: u64) -> Interval {
    let p = if n == 0 { 0.5 } else { acc as f64 / n as f64 };
    let e = hoeffding_eps(n, DELTA);
    Interval { lo: (p - e).max(0.0), hi: (p + e).min(1.0) }
}

/// kT interval implied by an acceptance-probability interval for a downhill move of size d:
/// a = exp(-d/kT)  =>  kT = -d / ln a  (monotone increasing in a)
pub fn kt_interval(a: Interval, d: f64) -> Interval {
    let f = |p: f64| -> f64 {
        if p <= 0.0 {
            0.0
        } else if p >= 1.0 {
            f64::INFINITY
        } else {
            -d / p.ln()
        }
    };
    Interval { lo: f(a.lo), hi: f(a.hi) }
}
