//! Parallel iterator subset executed on simulated workers.

use crate::sim;
use shuttle::rand::Rng;
use shuttle::sync::Mutex;
use std::cmp::Ordering;
use std::collections::VecDeque;

pub trait ParallelIterator: Sized + Send + Sync {
    type Item: Send;
    /// source element type
    type Base: Send;

    /// per-piece state (rayon: one per split): what `map_with` / `map_init` / `fold` carry from one
    /// element of a piece to the next
    type Ctx;

    #[doc(hidden)]
    fn take_bases(&mut self) -> Vec<Self::Base>;
    #[doc(hidden)]
    fn new_ctx(&self) -> Self::Ctx;
    #[doc(hidden)]
    fn eval(&self, ctx: &mut Self::Ctx, b: Self::Base) -> Option<Self::Item>;
    /// called once when a piece is exhausted (`fold` emits its accumulator here)
    #[doc(hidden)]
    fn finish(&self, _ctx: Self::Ctx) -> Option<Self::Item> {
        None
    }

    /// rayon's `map_with`: `init` is cloned once per piece and handed to every call of that piece
    fn map_with<T, F, R>(self, init: T, f: F) -> MapWith<Self, T, F>
    where
        T: Send + Clone,
        F: Fn(&mut T, Self::Item) -> R + Sync + Send,
        R: Send,
    {
        MapWith { inner: self, init: std::sync::Mutex::new(init), f }
    }

    /// rayon's `map_init`: `init()` is called once per piece
    fn map_init<INIT, T, F, R>(self, init: INIT, f: F) -> MapInit<Self, INIT, F>
    where
        INIT: Fn() -> T + Sync + Send,
        F: Fn(&mut T, Self::Item) -> R + Sync + Send,
        R: Send,
    {
        MapInit { inner: self, init, f }
    }

    /// rayon's `fold`: one accumulator per piece
    fn fold<T, ID, F>(self, identity: ID, fold_op: F) -> Fold<Self, ID, F>
    where
        T: Send,
        ID: Fn() -> T + Sync + Send,
        F: Fn(T, Self::Item) -> T + Sync + Send,
    {
        Fold { inner: self, identity, fold_op }
    }

    fn inspect<OP>(self, op: OP) -> Map<Self, Box<dyn Fn(Self::Item) -> Self::Item + Sync + Send>>
    where
        OP: Fn(&Self::Item) + Sync + Send + 'static,
        Self::Item: 'static,
    {
        Map {
            inner: self,
            f: Box::new(move |x| {
                op(&x);
                x
            }),
        }
    }

    fn for_each_with<T, OP>(self, init: T, op: OP)
    where
        T: Send + Clone,
        OP: Fn(&mut T, Self::Item) + Sync + Send,
    {
        let _ = self.map_with(init, op).reduce_with(|_, _| ());
    }

    fn any<P>(self, p: P) -> bool
    where
        P: Fn(Self::Item) -> bool + Sync + Send,
    {
        self.map(p).reduce_with(|a, b| a || b).unwrap_or(false)
    }

    fn all<P>(self, p: P) -> bool
    where
        P: Fn(Self::Item) -> bool + Sync + Send,
    {
        self.map(p).reduce_with(|a, b| a && b).unwrap_or(true)
    }

    /// (sequential-order answer; rayon's find_any may return any match)
    fn find_first<P>(self, p: P) -> Option<Self::Item>
    where
        P: Fn(&Self::Item) -> bool + Sync + Send,
    {
        self.filter(p).reduce_with(|a, _| a)
    }

    fn find_any<P>(self, p: P) -> Option<Self::Item>
    where
        P: Fn(&Self::Item) -> bool + Sync + Send,
    {
        self.filter(p).reduce_with(|a, _| a)
    }

    fn with_min_len(self, _min: usize) -> Self {
        self
    }

    fn with_max_len(self, _max: usize) -> Self {
        self
    }

    fn map<F, R>(self, f: F) -> Map<Self, F>
    where
        F: Fn(Self::Item) -> R + Sync + Send,
        R: Send,
    {
        Map { inner: self, f }
    }

    fn filter<P>(self, p: P) -> Filter<Self, P>
    where
        P: Fn(&Self::Item) -> bool + Sync + Send,
    {
        Filter { inner: self, p }
    }

    fn filter_map<F, R>(self, f: F) -> FilterMap<Self, F>
    where
        F: Fn(Self::Item) -> Option<R> + Sync + Send,
        R: Send,
    {
        FilterMap { inner: self, f }
    }

    fn reduce_with<OP>(self, op: OP) -> Option<Self::Item>
    where
        OP: Fn(Self::Item, Self::Item) -> Self::Item + Sync + Send,
    {
        execute(self, &op)
    }

    fn reduce<ID, OP>(self, identity: ID, op: OP) -> Self::Item
    where
        OP: Fn(Self::Item, Self::Item) -> Self::Item + Sync + Send,
        ID: Fn() -> Self::Item + Sync + Send,
    {
        match execute(self, &op) {
            Some(x) => op(identity(), x),
            None => identity(),
        }
    }

    fn max(self) -> Option<Self::Item>
    where
        Self::Item: Ord,
    {
        self.reduce_with(std::cmp::max)
    }

    fn min(self) -> Option<Self::Item>
    where
        Self::Item: Ord,
    {
        self.reduce_with(std::cmp::min)
    }

    fn max_by<F>(self, f: F) -> Option<Self::Item>
    where
        F: Sync + Send + Fn(&Self::Item, &Self::Item) -> Ordering,
    {
        self.reduce_with(move |a, b| match f(&a, &b) {
            Ordering::Greater => a,
            _ => b,
        })
    }

    fn min_by<F>(self, f: F) -> Option<Self::Item>
    where
        F: Sync + Send + Fn(&Self::Item, &Self::Item) -> Ordering,
    {
        self.reduce_with(move |a, b| match f(&a, &b) {
            Ordering::Greater => b,
            _ => a,
        })
    }

    fn max_by_key<K, F>(self, f: F) -> Option<Self::Item>
    where
        K: Ord + Send,
        F: Sync + Send + Fn(&Self::Item) -> K,
    {
        self.map(move |x| (f(&x), x))
            .reduce_with(|a, b| match (a.0).cmp(&b.0) {
                Ordering::Greater => a,
                _ => b,
            })
            .map(|(_, x)| x)
    }

    fn min_by_key<K, F>(self, f: F) -> Option<Self::Item>
    where
        K: Ord + Send,
        F: Sync + Send + Fn(&Self::Item) -> K,
    {
        self.map(move |x| (f(&x), x))
            .reduce_with(|a, b| match (a.0).cmp(&b.0) {
                Ordering::Greater => b,
                _ => a,
            })
            .map(|(_, x)| x)
    }

    fn for_each<OP>(self, op: OP)
    where
        OP: Fn(Self::Item) + Sync + Send,
    {
        let _ = self.map(op).reduce_with(|_, _| ());
    }

    fn count(self) -> usize {
        self.map(|_| 1usize).reduce_with(|a, b| a + b).unwrap_or(0)
    }

    fn sum<S>(self) -> S
    where
        S: Send + std::iter::Sum<Self::Item> + std::iter::Sum<S>,
    {
        // like rayon: pieces are summed left to right, partial sums are added in tree order, so a
        // non-associative addition (floats) sees the shape of the split tree
        self.map(|x| std::iter::once(x).sum::<S>())
            .reduce_with(|a, b| vec![a, b].into_iter().sum::<S>())
            .unwrap_or_else(|| std::iter::empty::<S>().sum::<S>())
    }

    fn collect<C>(self) -> C
    where
        C: FromParallelIterator<Self::Item>,
    {
        let v: Vec<Self::Item> = self
            .map(|x| vec![x])
            .reduce_with(|mut a, mut b| {
                a.append(&mut b);
                a
            })
            .unwrap_or_default();
        C::from_vec(v)
    }
}

pub trait FromParallelIterator<T: Send> {
    fn from_vec(v: Vec<T>) -> Self;
}
impl<T: Send> FromParallelIterator<T> for Vec<T> {
    fn from_vec(v: Vec<T>) -> Self {
        v
    }
}

pub trait IntoParallelIterator {
    type Iter: ParallelIterator<Item = Self::Item>;
    type Item: Send;
    fn into_par_iter(self) -> Self::Iter;
}

pub trait IntoParallelRefIterator<'data> {
    type Iter: ParallelIterator<Item = Self::Item>;
    type Item: Send + 'data;
    fn par_iter(&'data self) -> Self::Iter;
}

pub struct Source<T: Send> {
    items: Vec<T>,
}

impl<T: Send + Sync> ParallelIterator for Source<T> {
    type Item = T;
    type Base = T;
    type Ctx = ();
    fn take_bases(&mut self) -> Vec<T> {
        std::mem::take(&mut self.items)
    }
    fn new_ctx(&self) {}
    fn eval(&self, _ctx: &mut (), b: T) -> Option<T> {
        Some(b)
    }
}

macro_rules! range_impl {
    ($t:ty) => {
        impl IntoParallelIterator for std::ops::Range<$t> {
            type Iter = Source<$t>;
            type Item = $t;
            fn into_par_iter(self) -> Source<$t> {
                Source { items: self.collect() }
            }
        }
    };
}
range_impl!(u64);
range_impl!(u32);
range_impl!(usize);
range_impl!(i64);
range_impl!(i32);

impl<T: Send + Sync> IntoParallelIterator for Vec<T> {
    type Iter = Source<T>;
    type Item = T;
    fn into_par_iter(self) -> Source<T> {
        Source { items: self }
    }
}

impl<'data, T: Sync + 'data> IntoParallelRefIterator<'data> for Vec<T> {
    type Iter = Source<&'data T>;
    type Item = &'data T;
    fn par_iter(&'data self) -> Source<&'data T> {
        Source { items: self.iter().collect() }
    }
}

impl<'data, T: Sync + 'data> IntoParallelRefIterator<'data> for [T] {
    type Iter = Source<&'data T>;
    type Item = &'data T;
    fn par_iter(&'data self) -> Source<&'data T> {
        Source { items: self.iter().collect() }
    }
}

/// rayon::slice::ParallelSlice (par_chunks) and IntoParallelRefMutIterator are offered for slices
pub trait ParallelSlice<T: Sync> {
    fn as_parallel_slice(&self) -> &[T];
    fn par_chunks(&self, chunk_size: usize) -> Source<&[T]> {
        assert!(chunk_size != 0, "chunk_size must not be zero");
        Source { items: self.as_parallel_slice().chunks(chunk_size).collect() }
    }
    fn par_windows(&self, window_size: usize) -> Source<&[T]> {
        Source { items: self.as_parallel_slice().windows(window_size).collect() }
    }
}
impl<T: Sync> ParallelSlice<T> for [T] {
    fn as_parallel_slice(&self) -> &[T] {
        self
    }
}

impl<'data, T: Sync + 'data> IntoParallelIterator for &'data Vec<T> {
    type Iter = Source<&'data T>;
    type Item = &'data T;
    fn into_par_iter(self) -> Source<&'data T> {
        Source { items: self.iter().collect() }
    }
}
impl<'data, T: Sync + 'data> IntoParallelIterator for &'data [T] {
    type Iter = Source<&'data T>;
    type Item = &'data T;
    fn into_par_iter(self) -> Source<&'data T> {
        Source { items: self.iter().collect() }
    }
}

pub struct Map<I, F> {
    inner: I,
    f: F,
}

impl<I, F, R> ParallelIterator for Map<I, F>
where
    I: ParallelIterator,
    F: Fn(I::Item) -> R + Sync + Send,
    R: Send,
{
    type Item = R;
    type Base = I::Base;
    type Ctx = I::Ctx;
    fn take_bases(&mut self) -> Vec<I::Base> {
        self.inner.take_bases()
    }
    fn new_ctx(&self) -> I::Ctx {
        self.inner.new_ctx()
    }
    fn eval(&self, ctx: &mut I::Ctx, b: I::Base) -> Option<R> {
        self.inner.eval(ctx, b).map(|x| (self.f)(x))
    }
    fn finish(&self, ctx: I::Ctx) -> Option<R> {
        self.inner.finish(ctx).map(|x| (self.f)(x))
    }
}

pub struct Filter<I, P> {
    inner: I,
    p: P,
}

impl<I, P> ParallelIterator for Filter<I, P>
where
    I: ParallelIterator,
    P: Fn(&I::Item) -> bool + Sync + Send,
{
    type Item = I::Item;
    type Base = I::Base;
    type Ctx = I::Ctx;
    fn take_bases(&mut self) -> Vec<I::Base> {
        self.inner.take_bases()
    }
    fn new_ctx(&self) -> I::Ctx {
        self.inner.new_ctx()
    }
    fn eval(&self, ctx: &mut I::Ctx, b: I::Base) -> Option<I::Item> {
        self.inner.eval(ctx, b).filter(|x| (self.p)(x))
    }
    fn finish(&self, ctx: I::Ctx) -> Option<I::Item> {
        self.inner.finish(ctx).filter(|x| (self.p)(x))
    }
}

pub struct FilterMap<I, F> {
    inner: I,
    f: F,
}

impl<I, F, R> ParallelIterator for FilterMap<I, F>
where
    I: ParallelIterator,
    F: Fn(I::Item) -> Option<R> + Sync + Send,
    R: Send,
{
    type Item = R;
    type Base = I::Base;
    type Ctx = I::Ctx;
    fn take_bases(&mut self) -> Vec<I::Base> {
        self.inner.take_bases()
    }
    fn new_ctx(&self) -> I::Ctx {
        self.inner.new_ctx()
    }
    fn eval(&self, ctx: &mut I::Ctx, b: I::Base) -> Option<R> {
        self.inner.eval(ctx, b).and_then(|x| (self.f)(x))
    }
    fn finish(&self, ctx: I::Ctx) -> Option<R> {
        self.inner.finish(ctx).and_then(|x| (self.f)(x))
    }
}

pub struct MapWith<I, T, F> {
    inner: I,
    init: std::sync::Mutex<T>,
    f: F,
}

impl<I, T, F, R> ParallelIterator for MapWith<I, T, F>
where
    I: ParallelIterator,
    T: Send + Clone,
    F: Fn(&mut T, I::Item) -> R + Sync + Send,
    R: Send,
{
    type Item = R;
    type Base = I::Base;
    type Ctx = (I::Ctx, T);
    fn take_bases(&mut self) -> Vec<I::Base> {
        self.inner.take_bases()
    }
    fn new_ctx(&self) -> (I::Ctx, T) {
        let t = match self.init.lock() {
            Ok(g) => g.clone(),
            Err(p) => p.into_inner().clone(),
        };
        (self.inner.new_ctx(), t)
    }
    fn eval(&self, ctx: &mut (I::Ctx, T), b: I::Base) -> Option<R> {
        let (ic, t) = ctx;
        self.inner.eval(ic, b).map(|x| (self.f)(t, x))
    }
    fn finish(&self, ctx: (I::Ctx, T)) -> Option<R> {
        let (ic, mut t) = ctx;
        self.inner.finish(ic).map(|x| (self.f)(&mut t, x))
    }
}

pub struct MapInit<I, INIT, F> {
    inner: I,
    init: INIT,
    f: F,
}

impl<I, INIT, T, F, R> ParallelIterator for MapInit<I, INIT, F>
where
    I: ParallelIterator,
    INIT: Fn() -> T + Sync + Send,
    F: Fn(&mut T, I::Item) -> R + Sync + Send,
    R: Send,
{
    type Item = R;
    type Base = I::Base;
    type Ctx = (I::Ctx, T);
    fn take_bases(&mut self) -> Vec<I::Base> {
        self.inner.take_bases()
    }
    fn new_ctx(&self) -> (I::Ctx, T) {
        (self.inner.new_ctx(), (self.init)())
    }
    fn eval(&self, ctx: &mut (I::Ctx, T), b: I::Base) -> Option<R> {
        let (ic, t) = ctx;
        self.inner.eval(ic, b).map(|x| (self.f)(t, x))
    }
    fn finish(&self, ctx: (I::Ctx, T)) -> Option<R> {
        let (ic, mut t) = ctx;
        self.inner.finish(ic).map(|x| (self.f)(&mut t, x))
    }
}

pub struct Fold<I, ID, F> {
    inner: I,
    identity: ID,
    fold_op: F,
}

impl<I, T, ID, F> ParallelIterator for Fold<I, ID, F>
where
    I: ParallelIterator,
    T: Send,
    ID: Fn() -> T + Sync + Send,
    F: Fn(T, I::Item) -> T + Sync + Send,
{
    type Item = T;
    type Base = I::Base;
    type Ctx = (I::Ctx, Option<T>);
    fn take_bases(&mut self) -> Vec<I::Base> {
        self.inner.take_bases()
    }
    fn new_ctx(&self) -> (I::Ctx, Option<T>) {
        (self.inner.new_ctx(), None)
    }
    fn eval(&self, ctx: &mut (I::Ctx, Option<T>), b: I::Base) -> Option<T> {
        let (ic, acc) = ctx;
        if let Some(x) = self.inner.eval(ic, b) {
            let a = acc.take().unwrap_or_else(|| (self.identity)());
            *acc = Some((self.fold_op)(a, x));
        }
        None
    }
    fn finish(&self, ctx: (I::Ctx, Option<T>)) -> Option<T> {
        let (ic, mut acc) = ctx;
        if let Some(x) = self.inner.finish(ic) {
            let a = acc.take().unwrap_or_else(|| (self.identity)());
            acc = Some((self.fold_op)(a, x));
        }
        Some(acc.unwrap_or_else(|| (self.identity)()))
    }
}

// ---------------------------------------------------------------------------------------------
// execution

enum Tree {
    Leaf(usize),
    Join(Box<Tree>, Box<Tree>),
}

fn build_tree(lo: usize, hi: usize, max_leaf: usize, leaves: &mut Vec<(usize, usize)>, depth: u64, max_depth: &mut u64) -> Tree {
    *max_depth = (*max_depth).max(depth);
    let len = hi - lo;
    let mut rng = shuttle::rand::thread_rng();
    let stop = len <= 1 || (len <= max_leaf && rng.gen_range(0..3) == 0);
    if stop {
        leaves.push((lo, hi));
        return Tree::Leaf(leaves.len() - 1);
    }
    // rayon halves; the simulator also explores uneven splits
    let mid = if rng.gen_range(0..2) == 0 { lo + len / 2 } else { lo + 1 + rng.gen_range(0..(len - 1)) };
    let l = build_tree(lo, mid, max_leaf, leaves, depth + 1, max_depth);
    let r = build_tree(mid, hi, max_leaf, leaves, depth + 1, max_depth);
    Tree::Join(Box::new(l), Box::new(r))
}

fn combine<T, OP: Fn(T, T) -> T>(t: &Tree, results: &mut Vec<Option<Option<T>>>, op: &OP) -> Option<T> {
    match t {
        Tree::Leaf(i) => results[*i].take().expect("leaf result missing"),
        Tree::Join(l, r) => {
            let a = combine(l, results, op);
            let b = combine(r, results, op);
            match (a, b) {
                (Some(a), Some(b)) => Some(op(a, b)),
                (Some(a), None) => Some(a),
                (None, b) => b,
            }
        }
    }
}

pub(crate) fn execute<PI, OP>(mut pi: PI, op: &OP) -> Option<PI::Item>
where
    PI: ParallelIterator,
    OP: Fn(PI::Item, PI::Item) -> PI::Item + Sync + Send,
{
    if !sim::in_simulation() {
        // plain sequential semantics, no simulator involved
        let mut acc: Option<PI::Item> = None;
        let mut ctx = pi.new_ctx();
        for b in pi.take_bases() {
            let v = pi.eval(&mut ctx, b);
            acc = match (acc, v) {
                (Some(a), Some(v)) => Some(op(a, v)),
                (None, v) => v,
                (a, None) => a,
            };
        }
        return match (acc, pi.finish(ctx)) {
            (Some(a), Some(v)) => Some(op(a, v)),
            (None, v) => v,
            (a, None) => a,
        };
    }
    let mut cfg = sim::with(|s| s.cfg.clone());
    // a parallel iterator used *inside* a replica item (e.g. by the library's own code): its pieces
    // belong to the enclosing item as far as the access monitor is concerned, and the F-subset
    // fault applies to the outermost iterator only
    let parent_item = sim::current_item();
    let nested = parent_item >= 0;
    if nested {
        cfg.deliver = None;
    } else {
        let consumed = sim::with(|s| std::mem::replace(&mut s.deliver_consumed, true));
        if consumed {
            // everything the earlier top-level iterator did happened before this one (join)
            sim::with(|s| s.release_all());
            if cfg.deliver.is_some() {
                // positions of a later pass no longer name the items of the first one
                sim::with(|s| s.monitor_on = false);
            }
            cfg.deliver = None;
        }
    }
    let all = pi.take_bases();
    let total = all.len();
    if cfg.deliver.is_some() && cfg.deliver_expect > 0 && total != cfg.deliver_expect {
        sim::with(|s| s.stats.subset_not_applicable += 1);
        cfg.deliver = None;
    }
    // F-subset: the simulated pool hands the pipeline only the chosen positions
    let mut bases: Vec<(usize, PI::Base)> = Vec::with_capacity(total);
    for (pos, b) in all.into_iter().enumerate() {
        let keep = match &cfg.deliver {
            None => true,
            Some(d) => d.contains(&pos),
        };
        if keep {
            bases.push((pos, b));
        }
    }
    sim::with(|s| {
        s.stats.items_delivered += bases.len() as u64;
        s.stats.items_dropped += (total - bases.len()) as u64;
    });
    if bases.is_empty() {
        return None;
    }
    let n = bases.len();

    if cfg.reference {
        // one worker, index order, single left fold, no pre-emption
        let mut acc: Option<PI::Item> = None;
        let mut ctx = pi.new_ctx();
        for (pos, b) in bases {
            sim::set_current_item(if nested { parent_item } else { pos as i64 });
            let v = pi.eval(&mut ctx, b);
            sim::set_current_item(if nested { parent_item } else { -1 });
            if !nested {
                sim::with(|s| s.stats.tasks += 1);
            }
            acc = match (acc, v) {
                (Some(a), Some(v)) => Some(op(a, v)),
                (None, v) => v,
                (a, None) => a,
            };
        }
        if !nested {
            sim::with(|s| {
                s.stats.leaves += 1;
            });
        }
        return match (acc, pi.finish(ctx)) {
            (Some(a), Some(v)) => Some(op(a, v)),
            (None, v) => v,
            (a, None) => a,
        };
    }

    let mut leaves: Vec<(usize, usize)> = vec![];
    let mut depth = 0u64;
    let max_leaf = if cfg.max_leaf > 0 { cfg.max_leaf } else { 1 + shuttle::rand::thread_rng().gen_range(0..3usize) };
    let tree = build_tree(0, n, max_leaf, &mut leaves, 0, &mut depth);
    // task deque: (leaf index, items of the leaf)
    let mut slots: Vec<Option<(usize, PI::Base)>> = bases.into_iter().map(Some).collect();
    let mut deque: VecDeque<(usize, Vec<(usize, PI::Base)>)> = VecDeque::new();
    for (li, (lo, hi)) in leaves.iter().enumerate() {
        let items: Vec<(usize, PI::Base)> = (*lo..*hi).map(|k| slots[k].take().unwrap()).collect();
        deque.push_back((li, items));
    }
    let n_leaves = leaves.len();
    let deque = Mutex::new(deque);
    let results: Mutex<Vec<Option<Option<PI::Item>>>> = Mutex::new((0..n_leaves).map(|_| None).collect());
    // nested pools are kept small: every simulated thread owns a 1 MiB continuation stack, and a
    // library-level iterator may be entered thousands of times per replica
    let workers = if nested { cfg.workers.max(1).min(2) } else { cfg.workers.max(1) };
    let pi_ref = &pi;
    let deque_ref = &deque;
    let results_ref = &results;
    let ran: Mutex<u64> = Mutex::new(0);
    let ran_ref = &ran;
    shuttle::thread::scope(|s| {
        for _w in 0..workers {
            s.spawn(move || {
                let mut did_any = false;
                loop {
                    // seeded steal decision: take from the front (own work) or the back (steal)
                    let task = {
                        let mut q = deque_ref.lock().unwrap();
                        if q.is_empty() {
                            None
                        } else if shuttle::rand::thread_rng().gen_range(0..4) == 0 {
                            sim::with(|s| s.stats.steals_from_back += 1);
                            q.pop_back()
                        } else {
                            q.pop_front()
                        }
                    };
                    let (li, items) = match task {
                        Some(t) => t,
                        None => break,
                    };
                    did_any = true;
                    let mut acc: Option<PI::Item> = None;
                    // one context per piece, as rayon clones map_with's value once per split
                    let mut ctx = pi_ref.new_ctx();
                    for (pos, b) in items {
                        sim::set_current_item(if nested { parent_item } else { pos as i64 });
                        let v = pi_ref.eval(&mut ctx, b);
                        sim::set_current_item(-1);
                        if !nested {
                            sim::with(|s| s.stats.tasks += 1);
                        } else {
                            sim::with(|s| s.stats.nested_tasks += 1);
                        }
                        acc = match (acc, v) {
                            (Some(a), Some(v)) => Some(op(a, v)),
                            (None, v) => v,
                            (a, None) => a,
                        };
                        // a worker may be pre-empted between items as well
                        shuttle::thread::sleep(std::time::Duration::from_millis(0));
                    }
                    acc = match (acc, pi_ref.finish(ctx)) {
                        (Some(a), Some(v)) => Some(op(a, v)),
                        (None, v) => v,
                        (a, None) => a,
                    };
                    // result hand-off to the reducer
                    results_ref.lock().unwrap()[li] = Some(acc);
                    sim::with(|s| s.stats.handoffs += 1);
                }
                if did_any {
                    *ran_ref.lock().unwrap() += 1;
                }
            });
        }
    });
    let mut results = results.into_inner().unwrap();
    let r = *ran.lock().unwrap();
    if !nested {
        sim::with(|s| {
            s.stats.leaves += n_leaves as u64;
            s.stats.tree_depth = s.stats.tree_depth.max(depth);
            s.stats.workers_that_ran_items = s.stats.workers_that_ran_items.max(r);
        });
    }
    // back in the enclosing item's context
    sim::set_current_item(parent_item);
    combine(&tree, &mut results, op)
}
