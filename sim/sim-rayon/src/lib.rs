//! sim-rayon — a simulated `rayon` whose workers are shuttle threads.
//!
//! API subset: what /repo/src/main.rs uses (`into_par_iter` on a `Range<u64>`, `map`, `max`) plus
//! the neighbours a maintainer might switch to (`filter`, `min`, `max_by`, `min_by`, `max_by_key`,
//! `min_by_key`, `reduce`, `reduce_with`, `collect::<Vec<_>>`, `for_each`, `sum`, `count`,
//! `into_par_iter`/`par_iter` on `Vec`).  If main.rs starts using anything else the harness fails
//! to build, which the check reports as a harness error (exit 2), never as a violation.
//!
//! Semantics follow rayon's documentation: items are split into contiguous pieces, pieces are
//! folded left to right, partial results are combined left/right in tree order.  *How* the range
//! is split, *which* worker takes which piece *when*, and where workers are pre-empted are
//! decisions of the simulator (shuttle's seeded scheduler and RNG).
//!
//! `sim` holds the simulator's controls and the cross-task access monitor.

pub mod iter;
pub mod sim;

pub mod prelude {
    pub use crate::iter::{FromParallelIterator, IntoParallelIterator, IntoParallelRefIterator, ParallelIterator};
}

pub use iter::*;

/// rayon::current_num_threads()
pub fn current_num_threads() -> usize {
    sim::with(|s| if s.in_simulation { s.cfg.workers.max(1) } else { 1 })
}
