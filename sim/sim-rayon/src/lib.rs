//! sim-rayon — a simulated `rayon` whose workers are shuttle threads.
//!
//! API subset: what /repo/src/main.rs uses (`into_par_iter` on a `Range<u64>`, `map`, `max`) plus
//! the neighbours a maintainer might switch to (`filter`, `min`, `max_by`, `min_by`, `max_by_key`,
//! `min_by_key`, `reduce`, `reduce_with`, `collect::<Vec<_>>`, `for_each`, `sum`, `count`,
//! `into_par_iter`/`par_iter` on `Vec`).  If main.rs starts using anything else the harness fails
//! to build, which the check reports as a harness error (exit 2), never as a violation.
//!
//! Semantics follow rayon's documentation: items are split into contiguous pieces, pieces are
//! folded left to right, partial results are combined left/right in tree order.  *How* the range
//! is split, *which* worker takes which piece *when*, and where workers are pre-empted are
//! decisions of the simulator (shuttle's seeded scheduler and RNG).
//!
//! `sim` holds the simulator's controls and the cross-task access monitor.

pub mod iter;
pub mod sim;

pub mod prelude {
    pub use crate::iter::{FromParallelIterator, IntoParallelIterator, IntoParallelRefIterator, ParallelIterator, ParallelSlice};
}

pub use iter::*;

/// rayon::current_num_threads()
pub fn current_num_threads() -> usize {
    sim::with(|s| if s.in_simulation { s.cfg.workers.max(1) } else { 1 })
}

/// rayon::join: both closures are run, the second as a simulated task when a simulation is active
pub fn join<A, B, RA, RB>(oper_a: A, oper_b: B) -> (RA, RB)
where
    A: FnOnce() -> RA + Send,
    B: FnOnce() -> RB + Send,
    RA: Send,
    RB: Send,
{
    if !sim::in_simulation() {
        let a = oper_a();
        let b = oper_b();
        return (a, b);
    }
    shuttle::thread::scope(|s| {
        let hb = s.spawn(oper_b);
        let a = oper_a();
        let b = hb.join().expect("joined task panicked");
        (a, b)
    })
}

/// rayon::ThreadPoolBuilder / ThreadPool: the number of workers of a simulated execution is the
/// simulator's decision (F-workers); building a pool always succeeds and `install` runs the
/// closure in place
#[derive(Debug, Default)]
pub struct ThreadPoolBuilder {
    num_threads: usize,
}
#[derive(Debug)]
pub struct ThreadPoolBuildError;
impl std::fmt::Display for ThreadPoolBuildError {
    fn fmt(&self, f: &mut std::fmt::Formatter) -> std::fmt::Result {
        write!(f, "the global thread pool has already been initialized")
    }
}
impl std::error::Error for ThreadPoolBuildError {}
#[derive(Debug)]
pub struct ThreadPool {
    num_threads: usize,
}
impl ThreadPoolBuilder {
    pub fn new() -> Self {
        ThreadPoolBuilder { num_threads: 0 }
    }
    pub fn num_threads(mut self, n: usize) -> Self {
        self.num_threads = n;
        self
    }
    pub fn thread_name<F>(self, _f: F) -> Self
    where
        F: FnMut(usize) -> String + 'static,
    {
        self
    }
    pub fn stack_size(self, _s: usize) -> Self {
        self
    }
    pub fn build(self) -> Result<ThreadPool, ThreadPoolBuildError> {
        Ok(ThreadPool { num_threads: self.num_threads })
    }
    pub fn build_global(self) -> Result<(), ThreadPoolBuildError> {
        Ok(())
    }
}
impl ThreadPool {
    pub fn install<OP, R>(&self, op: OP) -> R
    where
        OP: FnOnce() -> R + Send,
        R: Send,
    {
        op()
    }
    pub fn current_num_threads(&self) -> usize {
        if self.num_threads > 0 && !sim::in_simulation() {
            self.num_threads
        } else {
            current_num_threads()
        }
    }
}
