//! Simulator controls and the access monitor.  State is per OS thread: a shuttle `Runner` and all
//! the simulated threads it creates live on the OS thread that called `Runner::run`, so different
//! scenarios can be simulated in parallel on different OS threads without sharing anything.

use std::cell::RefCell;
use std::collections::HashMap;
use std::hash::{BuildHasherDefault, Hasher};

#[derive(Clone, Debug)]
pub struct SimConfig {
    /// number of simulated worker threads (1..16)
    pub workers: usize,
    /// reference mode: one worker, index order, single left fold, no pre-emption
    pub reference: bool,
    /// average number of SharedValue accesses between injected pre-emptions (0 = never)
    pub yield_gap: u64,
    /// F-subset: deliver only these positions of the source to the pipeline (None = all)
    pub deliver: Option<Vec<usize>>,
    /// number of items the first top-level iterator must have for `deliver` to mean "these replica
    /// indices" (0 = unchecked).  A pipeline that iterates over something else (chunks of indices,
    /// say) gets everything, and the execution is marked: its result says nothing about subsets
    pub deliver_expect: usize,
    /// maximal leaf size when splitting (0 = random)
    pub max_leaf: usize,
}

impl Default for SimConfig {
    fn default() -> Self {
        SimConfig { workers: 1, reference: true, yield_gap: 0, deliver: None, deliver_expect: 0, max_leaf: 0 }
    }
}

#[derive(Clone, Debug, Default)]
pub struct SimStats {
    pub accesses: u64,
    pub yields: u64,
    pub tasks: u64,
    pub nested_tasks: u64,
    pub short_writes: u64,
    pub leaves: u64,
    pub tree_depth: u64,
    pub steals_from_back: u64,
    pub handoffs: u64,
    pub items_delivered: u64,
    pub items_dropped: u64,
    /// executions in which F-subset could not be applied (see SimConfig::deliver_expect)
    pub subset_not_applicable: u64,
    pub workers_that_ran_items: u64,
    /// (value id, first item, second item, second access was a write)
    pub races: Vec<(u64, i64, i64, bool)>,
    pub writes_outside_items_to_item_values: u64,
}

#[derive(Default)]
pub struct IdHasher(u64);
impl Hasher for IdHasher {
    fn finish(&self) -> u64 {
        self.0
    }
    fn write(&mut self, bytes: &[u8]) {
        for b in bytes {
            self.0 = (self.0 << 8) | *b as u64;
        }
    }
    fn write_u64(&mut self, i: u64) {
        self.0 = i.wrapping_mul(0x9E37_79B9_7F4A_7C15);
    }
}

const MULTI_READ: i64 = -2;

pub struct SimState {
    /// true only while a simulated execution (a shuttle Runner body) is running on this OS thread;
    /// outside of it the crate behaves as a plain sequential iterator library and touches no
    /// shuttle API (the packing library is linked against this crate in every harness binary)
    pub in_simulation: bool,
    pub cfg: SimConfig,
    pub stats: SimStats,
    /// value id -> (owning item task or MULTI_READ, written by an item task)
    owners: HashMap<u64, (i64, bool), BuildHasherDefault<IdHasher>>,
    gap_left: u64,
    pub monitor_on: bool,
    /// F-subset applies to the first top-level parallel iterator of an execution (the one over
    /// the replica indices); a pipeline that makes a second pass over what the first one
    /// collected must see all of it
    pub deliver_consumed: bool,
}

std::thread_local! {
    static STATE: RefCell<SimState> = RefCell::new(SimState {
        in_simulation: false,
        cfg: SimConfig::default(),
        stats: SimStats::default(),
        owners: HashMap::default(),
        gap_left: 0,
        monitor_on: false,
        deliver_consumed: false,
    });
}

shuttle::thread_local! {
    /// the item (position in the source) the current simulated thread is evaluating; -1 = none
    static CURRENT_ITEM: std::cell::Cell<i64> = std::cell::Cell::new(-1);
}

impl SimState {
    /// the end of a top-level parallel iterator is a join: what its items owned is released, and
    /// the items of the next top-level iterator start with a clean record
    pub fn release_all(&mut self) {
        self.owners.clear();
    }
}

pub fn with<R>(f: impl FnOnce(&mut SimState) -> R) -> R {
    STATE.with(|s| f(&mut s.borrow_mut()))
}

/// called by the harness before each simulated execution
pub fn configure(cfg: SimConfig, monitor_on: bool) {
    with(|s| {
        s.cfg = cfg;
        s.stats = SimStats::default();
        s.owners.clear();
        s.gap_left = 0;
        s.monitor_on = monitor_on;
        s.deliver_consumed = false;
    });
}

/// bracket a simulated execution (called by the harness at the start / end of a Runner body)
pub fn enter_simulation() {
    with(|s| s.in_simulation = true);
}
pub fn leave_simulation() {
    with(|s| s.in_simulation = false);
}
pub fn in_simulation() -> bool {
    with(|s| s.in_simulation)
}

pub(crate) fn current_item() -> i64 {
    if in_simulation() {
        CURRENT_ITEM.with(|c| c.get())
    } else {
        -1
    }
}

pub fn take_stats() -> SimStats {
    with(|s| std::mem::take(&mut s.stats))
}

pub(crate) fn set_current_item(i: i64) {
    CURRENT_ITEM.with(|c| c.set(i));
}

fn next_gap(avg: u64) -> u64 {
    use shuttle::rand::Rng;
    // uniform on [1, 2*avg]: mean ~avg, drawn from shuttle's RNG so that a replayed schedule
    // reproduces the pre-emption points
    1 + shuttle::rand::thread_rng().gen_range(0..(2 * avg).max(1))
}

/// The SharedValue access hook (installed by the harness through packing::verif_hooks).
pub fn on_access(id: u64, write: bool) {
    let mut do_yield = false;
    let in_sim = STATE.with(|s| {
        let mut s = s.borrow_mut();
        if !s.monitor_on || !s.in_simulation {
            return false;
        }
        s.stats.accesses += 1;
        true
    });
    if !in_sim {
        return;
    }
    let item = CURRENT_ITEM.with(|c| c.get());
    STATE.with(|st| {
        let mut s = st.borrow_mut();
        if item >= 0 {
            let e = s.owners.entry(id).or_insert((item, false));
            if e.0 == item {
                e.1 |= write;
            } else if e.0 == MULTI_READ {
                if write {
                    let r = (id, MULTI_READ, item, true);
                    e.1 = true;
                    if s.stats.races.len() < 8 {
                        s.stats.races.push(r);
                    }
                }
            } else {
                // a second item task touches this value
                let first = e.0;
                if write || e.1 {
                    if s.stats.races.len() < 8 {
                        s.stats.races.push((id, first, item, write));
                    }
                } else {
                    e.0 = MULTI_READ;
                }
            }
        } else if write {
            if let Some(e) = s.owners.get(&id) {
                if e.0 >= 0 {
                    s.stats.writes_outside_items_to_item_values += 1;
                }
            }
        }
        if s.cfg.yield_gap > 0 && !s.cfg.reference && item >= 0 {
            if s.gap_left == 0 {
                do_yield = true;
            } else {
                s.gap_left -= 1;
            }
        }
    });
    if do_yield {
        let avg = with(|s| s.cfg.yield_gap);
        let g = next_gap(avg);
        with(|s| {
            s.gap_left = g;
            s.stats.yields += 1;
        });
        // F-sched: pre-emption point in the middle of an optimisation step
        shuttle::thread::sleep(std::time::Duration::from_millis(0));
    }
}
