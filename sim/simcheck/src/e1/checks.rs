//! E1 checks: C06, C19, C05 (landscape part), C20 (optimiser part), C07, C18.

use super::tracker::{EdgeCtx, Trace};
use super::*;
use sim_core::driver::{Check, RunOut, Tier, Violation};
use sim_core::json::J;
use sim_core::prng::Rng;
use sim_core::stats::{self, Interval};

pub const REAL: &[&str] = &[
    "packing::BuildOptimiser::build",
    "packing::MCOptimiser::optimise_state",
    "packing::StandardBasis (set_value/reset_value/sample/set_sampled)",
    "packing::SharedValue",
    "rand 0.7 / rand_pcg (Pcg64Mcg) as pinned by /repo/Cargo.lock",
];
pub const STUB: &[&str] = &["State implementor: ScriptedState (deterministic landscape of the parameter vector, records every score() call)"];

/// with a single parameter every earlier state stays a possible explanation, so the tracker's
/// hypothesis set grows linearly with the run length: keep such runs short
pub fn cap_for_n(ps: &ParamSpec, cfg: &mut OptCfg) {
    if ps.n == 1 && cfg.steps > 300 {
        let loops = cfg.loops().max(1);
        cfg.steps = 300;
        cfg.inner = (300 / loops).max(1);
    }
}

pub fn scen(ps: &ParamSpec, ls: &LandSpec, cfg: &OptCfg) -> J {
    J::obj()
        .set("engine", J::str("e1-landscape"))
        .set("params", ps.to_json())
        .set("land", ls.to_json())
        .set("opt", cfg.to_json())
}

/// "which optimisations ran before on this thread": an optional earlier optimiser run with other
/// settings, executed on the same (fresh) thread right before the observed run.  Its own history
/// is not judged; the observed run must behave exactly as if it had not happened.
pub fn gen_prelude(rng: &mut Rng) -> Option<OptCfg> {
    if !rng.chance(0.3) {
        return None;
    }
    let steps = *rng.pick(&[1u64, 7, 60, 200]);
    Some(OptCfg {
        steps,
        inner: *rng.pick(&[1u64, 3, 20, 1000]),
        kt_start: *rng.pick(&[0.0, 0.1, 5.0]),
        kt_finish: *rng.pick(&[None, Some(1e-3)]),
        kt_ratio: *rng.pick(&[None, Some(0.1)]),
        max_step: *rng.pick(&[0.5, 1.0, 5.0, 0.01]),
        convergence: *rng.pick(&[None, Some(1e9), Some(1e-3)]),
        seed: rng.below(1 << 32),
        order: 0,
        prior: None,
    })
}

pub fn with_prelude(j: J, p: Option<OptCfg>) -> J {
    match p {
        Some(c) => j.set("prelude", c.to_json()),
        None => j,
    }
}

/// run the prelude of a scenario (if any) on the current thread
pub fn run_prelude(j: &J, ps: &ParamSpec) -> Result<bool, String> {
    match j.get("prelude") {
        Some(p) if !p.is_null() => {
            let cfg = OptCfg::from_json(p)?;
            let ls = LandSpec::simple("peak", 12345);
            let small = ParamSpec { n: ps.n.min(6).max(1), ..ps.clone() };
            let _ = run_e1(&small, &ls, &cfg)?;
            Ok(true)
        }
        _ => Ok(false),
    }
}

pub fn unscen(j: &J) -> Result<(ParamSpec, LandSpec, OptCfg), String> {
    Ok((
        ParamSpec::from_json(j.get("params").ok_or("scenario.params")?)?,
        LandSpec::from_json(j.get("land").ok_or("scenario.land")?)?,
        OptCfg::from_json(j.get("opt").ok_or("scenario.opt")?)?,
    ))
}

/// general optimiser-configuration swarm (no zero run lengths: those belong to C20)
pub fn gen_cfg(rng: &mut Rng, tier: Tier, kt0: bool) -> OptCfg {
    let max_steps: u64 = match tier {
        Tier::Quick => 2000,
        Tier::Thorough => 6000,
    };
    // rare long runs (tens of thousands of steps)
    let long = rng.chance(0.002);
    let steps = match rng.below(6) {
        _ if long => rng.range_u64(20_000, 60_000),
        0 => rng.range_u64(1, 20),
        1 => rng.range_u64(20, 200),
        2 => 1000,
        _ => rng.range_u64(200, max_steps),
    };
    let loops_target = *rng.pick(&[1u64, 2, 3, 5, 10, 20, 50, 100]);
    let inner = match rng.below(8) {
        0 if rng.chance(0.2) => u64::MAX,
        0 => steps + rng.range_u64(1, 1000), // inner > steps
        1 => rng.range_u64(1, steps.max(1)), // arbitrary, mostly non-multiples
        _ => (steps / loops_target).max(1),
    };
    // (a zero temperature is drawn with either sign: -0.0 == 0)
    let kt_start = if kt0 { *rng.pick(&[0.0, 0.0, 0.0, 0.0, -0.0]) } else { *rng.pick(&[0.0, -0.0, 1e-3, 0.1, 0.1, 1.0, 5.0, 5.0, 1e-300, 1e308]) };
    let (kt_finish, kt_ratio) = match rng.below(6) {
        0 => (None, None),
        1 => (Some(0.0), None),
        2 => (Some(*rng.pick(&[1e-3, 1e-2, 10.0])), None),
        3 => (None, Some(0.0)),
        4 => (None, Some(*rng.pick(&[0.1, 0.3, 0.5, 1.0]))),
        _ => (Some(1e-3), Some(*rng.pick(&[0.0, 0.1]))),
    };
    OptCfg {
        steps,
        inner,
        kt_start,
        kt_finish,
        kt_ratio,
        max_step: *rng.pick(&[0.0, 1e-3, 0.01, 0.01, 0.1, 0.5, 1.0, 2.5, 5.0, 1e-7]),
        convergence: *rng.pick(&[None, None, None, Some(0.0), Some(1e-6), Some(1e-2)]),
        // replica indices are small seeds; the extremes of u64 are legal too
        seed: match rng.below(10) {
            0 => rng.below(8),
            1 => u64::MAX - rng.below(4),
            _ => rng.below(1 << 32),
        },
        order: if rng.chance(0.5) { 1 + rng.below(1 << 20) } else { 0 },
        prior: if rng.chance(0.25) { Some((*rng.pick(&[1u64, 10, 100_000]), *rng.pick(&[1u64, 7, 100_000]))) } else { None },
    }
}

fn shrink_common(j: &J) -> Vec<J> {
    let mut out = shrink_common_inner(j);
    if let Some(p) = j.get("prelude").filter(|p| !p.is_null()) {
        // every simplification keeps the prelude; one candidate drops it
        for c in out.iter_mut() {
            c.put("prelude", p.clone());
        }
        if let Ok((ps, ls, cfg)) = unscen(j) {
            out.insert(0, scen(&ps, &ls, &cfg));
        }
    }
    out
}

fn shrink_common_inner(j: &J) -> Vec<J> {
    let mut out = vec![];
    let (ps, ls, cfg) = match unscen(j) {
        Ok(x) => x,
        Err(_) => return out,
    };
    // fewer steps
    if cfg.steps > 1 {
        let mut c = cfg.clone();
        c.steps = cfg.steps / 2;
        c.inner = (cfg.inner / 2).max(1);
        out.push(scen(&ps, &ls, &c));
        let mut c = cfg.clone();
        c.steps = cfg.steps / 2;
        out.push(scen(&ps, &ls, &c));
        let mut c = cfg.clone();
        c.steps = cfg.steps - 1;
        out.push(scen(&ps, &ls, &c));
    }
    if cfg.inner > 1 {
        let mut c = cfg.clone();
        c.inner = cfg.inner / 2;
        out.push(scen(&ps, &ls, &c));
    }
    // fewer parameters
    if ps.n > 1 {
        for n in [1usize, 2, 3, ps.n / 2] {
            if n < ps.n && n >= 1 {
                let mut p = ps.clone();
                p.n = n;
                out.push(scen(&p, &ls, &cfg));
            }
        }
    }
    // simpler parameter space
    if ps.range_mode != "unit" {
        let mut p = ps.clone();
        p.range_mode = "unit".into();
        out.push(scen(&p, &ls, &cfg));
    }
    if ps.start_mode != "interior" {
        let mut p = ps.clone();
        p.start_mode = "interior".into();
        out.push(scen(&p, &ls, &cfg));
    }
    if ps.zero_width != 0.0 {
        let mut p = ps.clone();
        p.zero_width = 0.0;
        out.push(scen(&p, &ls, &cfg));
    }
    if ps.outside != 0.0 {
        let mut p = ps.clone();
        p.outside = 0.0;
        out.push(scen(&p, &ls, &cfg));
    }
    // simpler landscape
    if ls.holes != 0.0 {
        let mut l = ls.clone();
        l.holes = 0.0;
        l.nan_holes = false;
        out.push(scen(&ps, &l, &cfg));
    }
    if ls.cliff.is_some() {
        let mut l = ls.clone();
        l.cliff = None;
        out.push(scen(&ps, &l, &cfg));
    }
    if ls.kind != "plateau" && ls.kind != "staircase" && ls.kind != "script" {
        let mut l = ls.clone();
        l.kind = "plateau".into();
        out.push(scen(&ps, &l, &cfg));
        if ls.kind != "peak" {
            let mut l = ls.clone();
            l.kind = "peak".into();
            out.push(scen(&ps, &l, &cfg));
        }
    }
    // drop optional settings
    if cfg.convergence.is_some() {
        let mut c = cfg.clone();
        c.convergence = None;
        out.push(scen(&ps, &ls, &c));
    }
    if cfg.kt_finish.is_some() {
        let mut c = cfg.clone();
        c.kt_finish = None;
        out.push(scen(&ps, &ls, &c));
    }
    if cfg.kt_ratio.is_some() {
        let mut c = cfg.clone();
        c.kt_ratio = None;
        out.push(scen(&ps, &ls, &c));
    }
    if cfg.order != 0 || cfg.prior.is_some() {
        let mut c = cfg.clone();
        c.order = 0;
        c.prior = None;
        out.push(scen(&ps, &ls, &c));
    }
    if cfg.seed > 3 {
        for s in 0..3 {
            let mut c = cfg.clone();
            c.seed = s;
            out.push(scen(&ps, &ls, &c));
        }
    }
    out
}

pub fn base_out(run: &E1Run, tr: &Trace) -> RunOut {
    let mut out = RunOut::default();
    out.hash = run.hash();
    out.sim_steps = run.obs.len() as u64;
    out.sample = Some(run.head(10));
    let mut acc = 0u64;
    let mut rej = 0u64;
    let mut clamp = 0u64;
    let mut invalid = 0u64;
    let mut ties = 0u64;
    for (k, o) in run.obs.iter().enumerate() {
        if o.score.is_none() {
            invalid += 1;
        }
        for (i, b) in &o.diff {
            let (lo, hi) = run.bounds[*i as usize];
            let v = f64::from_bits(*b);
            if hi > lo && (v == lo || v == hi) {
                clamp += 1;
            }
        }
        let _ = k;
    }
    for r in tr.resolved_steps(run.x0_score).iter().flatten() {
        if r.null {
            continue;
        }
        if r.accepted {
            acc += 1
        } else {
            rej += 1
        }
        if r.prop_score.is_some() && r.prop_score.map(|x| x.to_bits()) == r.parent_score.map(|x| x.to_bits()) {
            ties += 1;
        }
    }
    out.count("fault.F-invalid", invalid);
    out.count("fault.F-clamp", clamp);
    out.count("fault.F-tie", ties);
    out.count("probe.resolved_accepts", acc);
    out.count("probe.resolved_rejects", rej);
    out.count("probe.hypothesis_set_size_ge2", (tr.max_hyps >= 2) as u64);
    out.count("probe.hypothesis_set_size_ge3", (tr.max_hyps >= 3) as u64);
    out.count("probe.tracker_saturated", tr.saturated_at.is_some() as u64);
    out.count(
        "fault.F-outside(start values outside their declared range)",
        run.x0.iter().enumerate().filter(|(i, b)| { let v = f64::from_bits(**b); let (lo, hi) = run.bounds[*i]; v < lo || v > hi }).count() as u64,
    );
    out.count("probe.run_panicked", run.panic.is_some() as u64);
    out.nontrivial = (acc > 0 && rej > 0) || invalid > 0 || clamp > 0;
    out
}

fn std_assumptions() -> Vec<String> {
    vec![
        "observation is at the public State API only: the parameter vector at each score() call, the returned object; accept/reject decisions are inferred by hypothesis tracking and a violation is raised only if every explanation consistent with all observations violates the clause".into(),
        "the scripted landscape is a deterministic function of the parameter vector, so any real State could have produced it".into(),
        "seeded search over configurations/landscapes/seeds: a clean batch is evidence over the runs executed, not a proof".into(),
    ]
}

// ---------------------------------------------------------------------------------------------
// C06

pub struct C06;

pub fn c06_verdict(run: &E1Run, tr: &Trace, kt_start_zero: bool, out: &mut RunOut) {
    if run.panic.is_some() {
        return; // termination is C20's subject
    }
    if let Some(k) = tr.unexplained_at {
        out.violate(Violation::new(
            "unexplained-observation",
            k as u64,
            format!(
                "score() call {} saw a parameter vector that is neither a one-parameter move from the previous proposal nor from the bit-exact pre-proposal state ({} coordinates changed since the previous call)",
                k,
                run.obs[k].diff.len()
            ),
        ));
        return;
    }
    if !tr.complete() {
        return;
    }
    if !tr.final_ok.iter().any(|b| *b) {
        out.violate(Violation::new(
            "returned-not-last-accepted",
            run.obs.len() as u64,
            "the returned object's parameters are neither the last accepted proposal nor the restored pre-proposal state",
        ));
    } else if !run.land.is_script() {
        // "the state of the last ACCEPTED proposal, not that of a discarded trial": explanations in
        // which a proposal without a score was accepted, a strictly better one was rejected or (at
        // zero temperature) a strictly worse one was accepted are not explanations at all, whatever
        // the temperature schedule is.  The returned state must be reachable through the others.
        let zero_kt = kt_start_zero;
        let res = tr.feasible(run.x0_score, |e: &EdgeCtx| {
            if e.null {
                return Ok(());
            }
            match (e.prop_score, e.parent_score) {
                (None, _) if e.accepted => Err("it would have been accepted although it has no score".to_string()),
                (Some(p), _) if !p.is_finite() && e.accepted => Err(format!("it would have been accepted although its score is {}", p)),
                (Some(p), Some(c)) if p > c && !e.accepted => Err(format!("it would have been rejected although it is strictly better ({:e} > {:e})", p, c)),
                (Some(p), Some(c)) if p < c && e.accepted && zero_kt => Err(format!("it would have been accepted at zero temperature although it is strictly worse ({:e} < {:e})", p, c)),
                _ => Ok(()),
            }
        });
        if let Err((k, why)) = res {
            out.violate(Violation::new(
                "returned-a-discarded-trial",
                k as u64,
                format!("the returned state can only be explained by treating the proposal of score() call {} differently from what the acceptance rule allows: {}", k.min(run.obs.len().saturating_sub(1)), why),
            ));
        }
        match run.ret_score {
            Some(None) => out.violate(Violation::new("returned-a-discarded-trial", run.obs.len() as u64, "the returned state has no score (an invalid proposal was handed back)".to_string())),
            Some(Some(x)) if !x.is_finite() => out.violate(Violation::new("returned-a-discarded-trial", run.obs.len() as u64, format!("the returned state's score is {} (a trial that can never be accepted was handed back)", x))),
            _ => {}
        }
    }
    if let (Some(a), Some(b)) = (&run.ret, &run.ret_basis) {
        if a != b {
            out.violate(Violation::new("basis-readout-differs", run.obs.len() as u64, "generate_basis() of the returned object reads other values than its score() does"));
        }
    }
    if run.land.is_script() {
        return;
    }
    if let (Some(r), Some(sc)) = (&run.ret, &run.ret_score) {
        let v: Vec<f64> = r.iter().map(|b| f64::from_bits(*b)).collect();
        let want = run.land.eval(&v);
        if want.map(|x| x.to_bits()) != sc.map(|x| x.to_bits()) {
            out.violate(Violation::new("returned-score-mismatch", run.obs.len() as u64, format!("returned.score() = {:?} but the landscape at the returned parameters is {:?}", sc, want)));
        }
    }
}

impl Check for C06 {
    fn id(&self) -> &'static str {
        "C06"
    }
    fn rule(&self) -> String {
        "run i: scripted landscape (peak/plateau/rugged, cliffs, holes), n in {1,2,3,6,64} parameters (starts on/off bounds, zero-width ranges), optimiser configuration and seed all drawn from splitmix(VERIF_SEED,'C06',i). Non-trivial: the resolved history contains at least one accepted and one rejected move, or an invalid proposal or a bound clamp fired. Distinct: distinct hashes of the full observed history (every changed parameter's bits and every score).".into()
    }
    fn runs(&self, tier: Tier) -> u64 {
        match tier {
            Tier::Quick => 60_000,
            Tier::Thorough => 1_500_000,
        }
    }
    fn generate(&self, rng: &mut Rng, tier: Tier, _i: u64) -> J {
        let mut ps = gen_params(rng, &[(1, 2), (2, 3), (3, 3), (6, 3), (64, 1)]);
        ps.outside = *rng.pick(&[0.0, 0.0, 0.0, 0.3, 1.0]);
        let mut ls = gen_land_general(rng, true);
        if ls.holes > 0.0 && rng.chance(0.4) {
            ls.nan_holes = true;
        }
        let mut cfg = gen_cfg(rng, tier, false);
        cap_for_n(&ps, &mut cfg);
        let pre = gen_prelude(rng);
        with_prelude(scen(&ps, &ls, &cfg), pre)
    }
    fn execute(&self, j: &J) -> Result<RunOut, String> {
        let (ps, ls, cfg) = unscen(j)?;
        let had_prelude = run_prelude(j, &ps)?;
        let run = run_e1(&ps, &ls, &cfg)?;
        let tr = run.trace();
        let mut out = base_out(&run, &tr);
        out.count("fault.F-history(an earlier optimisation ran on the same thread)", had_prelude as u64);
        c06_verdict(&run, &tr, cfg.kt_start == 0.0, &mut out);
        Ok(out)
    }
    fn shrink(&self, j: &J) -> Vec<J> {
        shrink_common(j)
    }
    fn components_real(&self) -> Vec<&'static str> {
        REAL.to_vec()
    }
    fn components_stub(&self) -> Vec<&'static str> {
        STUB.to_vec()
    }
    fn assumptions(&self) -> Vec<String> {
        std_assumptions()
    }
    fn expected_probes(&self) -> Vec<&'static str> {
        vec!["probe.hypothesis_set_size_ge2", "fault.F-invalid", "fault.F-clamp", "fault.F-tie", "probe.resolved_rejects", "probe.resolved_accepts"]
    }
}

// ---------------------------------------------------------------------------------------------
// C19

pub struct C19;

fn ulp(x: f64) -> f64 {
    let a = x.abs().max(f64::MIN_POSITIVE);
    f64::from_bits(a.to_bits() + 1) - a
}

pub fn c19_verdict(run: &E1Run, tr: &Trace, cfg: &OptCfg, out: &mut RunOut) {
    let bounds = run.bounds.clone();
    let inner = cfg.inner_eff().max(1);
    let res = tr.feasible(run.x0_score, |e: &EdgeCtx| match e.mv {
        None => Ok(()),
        Some((j, from, to)) => {
            let (lo, hi) = bounds[j as usize];
            let allowed = cfg.max_step * (hi - lo) / 2.0;
            let tol = allowed * 1e-12 + 4.0 * ulp(from.abs().max(to.abs()));
            let d = (to - from).abs();
            if d <= allowed + tol {
                Ok(())
            } else {
                Err(format!(
                    "parameter {} moved by {:e} (from {:e} to {:e}); allowed max_step_size*range/2 = {:e} (range [{:e},{:e}], max_step_size {})",
                    j, d, from, to, allowed, lo, hi, cfg.max_step
                ))
            }
        }
    });
    if let Err((k, why)) = res {
        if k < tr.steps.len() {
            let loop_idx = (k.saturating_sub(1)) as u64 / inner + 1;
            out.violate(
                Violation::new("step-too-large", k as u64, format!("proposal {} (inner loop {}): {}", k, loop_idx, why))
                    .sig("loop", if loop_idx == 1 { "first" } else { "later" }),
            );
        }
    }
    // probe: largest observed/allowed ratio in first vs later loops (shrinking is fine)
    let mut later_moves = 0u64;
    for (k, st) in tr.steps.iter().enumerate() {
        if k as u64 > inner && st.edges.iter().any(|e| e.mv.is_some()) {
            later_moves += 1;
        }
    }
    out.count("probe.moves_in_later_loops", later_moves);
}

impl Check for C19 {
    fn id(&self) -> &'static str {
        "C19"
    }
    fn rule(&self) -> String {
        "run i: landscape chosen to pin the per-loop rejection rate (plateau = 0 %, point cliff = 100 %, staircase/peak/rugged in between), 1..100 inner loops, ranges 1e-6..1e6, max_step_size 0..1, starts on/off bounds; 8 % collapse-and-recovery scripts (60..1100 consecutive rejections - enough to shrink the adaptive step below 1e-4 at inner_steps 2..10 - followed by a phase of acceptances, twice); all from splitmix(VERIF_SEED,'C19',i). Every proposal is compared with every surviving hypothesis of the state it derives from. Non-trivial: accepted and rejected moves both present, or a clamp/invalid proposal fired. Distinct: distinct history hashes.".into()
    }
    fn runs(&self, tier: Tier) -> u64 {
        match tier {
            Tier::Quick => 60_000,
            Tier::Thorough => 1_500_000,
        }
    }
    fn generate(&self, rng: &mut Rng, tier: Tier, _i: u64) -> J {
        let ps = gen_params(rng, &[(1, 1), (2, 3), (3, 3), (6, 3), (64, 2)]);
        let mut ls = gen_land_general(rng, true);
        match rng.below(5) {
            0 => {
                ls = LandSpec::simple("plateau", 1);
            }
            1 => {
                ls = LandSpec::simple("plateau", 1);
                ls.cliff = Some(0.0);
            }
            2 => {
                ls = LandSpec::simple("staircase", rng.next_u64() >> 12);
                ls.ladder = vec![*rng.pick(&[0.01, 0.1, 1.0])];
            }
            _ => {}
        }
        if ls.kind != "script" && ls.kind != "staircase" && rng.chance(0.15) {
            // isolated points whose score is NaN or infinite (what coincident LJ particles give)
            ls.holes = *rng.pick(&[0.1, 0.3]);
            ls.nan_holes = true;
        }
        let mut cfg = gen_cfg(rng, tier, false);
        if rng.chance(0.7) {
            // make sure there are several loops
            let loops = *rng.pick(&[2u64, 3, 5, 10, 50]);
            cfg.inner = (cfg.steps / loops).max(1);
        }
        if cfg.max_step == 0.0 && rng.chance(0.5) {
            cfg.max_step = 0.01;
        }
        cap_for_n(&ps, &mut cfg);
        if rng.chance(0.08) {
            // collapse and recovery: a rejection streak long enough to shrink the adaptive step by
            // orders of magnitude, then a phase in which (nearly) everything is accepted, repeated
            let ps = gen_params(rng, &[(2, 3), (3, 3), (6, 2)]);
            let (inner, streak) = *rng.pick(&[(2u64, 60.0), (2, 120.0), (3, 120.0), (4, 250.0), (4, 400.0), (10, 1100.0)]);
            let recover = *rng.pick(&[4.0, 10.0, 50.0]);
            let ls = LandSpec { kind: "script".into(), salt: rng.next_u64() >> 12, quantum: *rng.pick(&[1.0, 0.9, 0.5]), amp: 1.0, ladder: vec![streak, recover], cliff: None, holes: 0.0, nan_holes: false, abyss: None };
            cfg.inner = inner;
            cfg.steps = (2.0 * (streak + recover)) as u64 + 3 * inner;
            cfg.convergence = None;
            if cfg.max_step == 0.0 {
                cfg.max_step = 0.1;
            }
            return scen(&ps, &ls, &cfg).set("family", J::str("collapse-and-recovery"));
        }
        let pre = gen_prelude(rng);
        with_prelude(scen(&ps, &ls, &cfg), pre)
    }
    fn execute(&self, j: &J) -> Result<RunOut, String> {
        let (ps, ls, cfg) = unscen(j)?;
        let had_prelude = run_prelude(j, &ps)?;
        let run = run_e1(&ps, &ls, &cfg)?;
        let tr = run.trace();
        let mut out = base_out(&run, &tr);
        out.count("fault.F-history(an earlier optimisation ran on the same thread)", had_prelude as u64);
        out.count("probe.collapse_and_recovery_runs", (ls.kind == "script" && ls.ladder.len() == 2) as u64);
        c19_verdict(&run, &tr, &cfg, &mut out);
        Ok(out)
    }
    fn shrink(&self, j: &J) -> Vec<J> {
        shrink_common(j)
    }
    fn components_real(&self) -> Vec<&'static str> {
        REAL.to_vec()
    }
    fn components_stub(&self) -> Vec<&'static str> {
        STUB.to_vec()
    }
    fn assumptions(&self) -> Vec<String> {
        let mut a = std_assumptions();
        a.push("the allowed move is max_step_size * (max - min) / 2 of the moved parameter plus a rounding allowance of 1e-12 relative and 4 ulp of the operands".into());
        a
    }
    fn expected_probes(&self) -> Vec<&'static str> {
        vec!["probe.moves_in_later_loops", "fault.F-clamp", "probe.resolved_rejects", "probe.resolved_accepts"]
    }
}

// ---------------------------------------------------------------------------------------------
// C05 (landscape part; the real-crystal part lives in e2)

pub struct C05Landscape;

pub fn c05_verdict(run: &E1Run, tr: &Trace, out: &mut RunOut) {
    if run.panic.is_some() {
        return;
    }
    if let (Some(a), Some(Some(b))) = (run.x0_score, run.ret_score) {
        if b < a {
            out.violate(Violation::new(
                "final-below-initial",
                run.obs.len() as u64,
                format!("kt_start = 0 but returned score {:e} < input score {:e}", b, a),
            ));
        }
    }
    let res = tr.feasible(run.x0_score, |e: &EdgeCtx| {
        if e.accepted && !e.null {
            if let (Some(p), Some(c)) = (e.prop_score, e.parent_score) {
                if p < c {
                    return Err(format!("a proposal scoring {:e} replaced a state scoring {:e} (worse by {:e}) at zero temperature", p, c, c - p));
                }
            }
        }
        Ok(())
    });
    if let Err((k, why)) = res {
        out.violate(Violation::new("accepted-score-decreased", k as u64, format!("at score() call {}: {}", k, why)));
    }
}

pub fn gen_c05_e1(rng: &mut Rng, tier: Tier) -> J {
    let mut ps = gen_params(rng, &[(1, 1), (2, 3), (3, 3), (6, 3), (64, 1)]);
    ps.outside = *rng.pick(&[0.0, 0.0, 0.0, 0.3, 1.0]);
    let ls = gen_land_general(rng, false);
    let mut cfg = gen_cfg(rng, tier, true);
    // cross kt_finish / kt_ratio explicitly
    let (f, r) = *rng.pick(&[
        (None, None),
        (Some(0.0), None),
        (Some(1e-3), None),
        (Some(10.0), None),
        (None, Some(0.0)),
        (None, Some(0.1)),
        (None, Some(1.0)),
        (None, Some(1.5)),
        (Some(1e-3), Some(0.1)),
    ]);
    cfg.kt_finish = f;
    cfg.kt_ratio = r;
    let loops = *rng.pick(&[1u64, 2, 3, 10, 100]);
    cfg.inner = (cfg.steps / loops).max(1);
    cap_for_n(&ps, &mut cfg);
    let pre = gen_prelude(rng);
    with_prelude(scen(&ps, &ls, &cfg), pre)
}

pub fn exec_c05_e1(j: &J) -> Result<RunOut, String> {
    let (ps, ls, cfg) = unscen(j)?;
    if cfg.kt_start != 0.0 {
        return Err("C05 scenario with kt_start != 0".into());
    }
    let had_prelude = run_prelude(j, &ps)?;
    let run = run_e1(&ps, &ls, &cfg)?;
    let tr = run.trace();
    let mut out = base_out(&run, &tr);
    out.count("fault.F-history(an earlier optimisation ran on the same thread)", had_prelude as u64);
    out.count("probe.multi_loop_runs", (cfg.loops() >= 2) as u64);
    out.count("probe.kt_finish_set", cfg.kt_finish.is_some() as u64);
    c05_verdict(&run, &tr, &mut out);
    Ok(out)
}

pub fn shrink_e1(j: &J) -> Vec<J> {
    shrink_common(j)
}
