//! E1 checks, part 2: C07 (Metropolis rule), C18 (annealing schedule), C20 (termination and
//! amount of work; optimiser part).

use super::checks::{cap_for_n, gen_cfg, gen_prelude, run_prelude, scen, shrink_e1, unscen, with_prelude, REAL, STUB};
use super::tracker::{EdgeCtx, Trace};
use super::*;
use sim_core::driver::{Check, RunOut, Tier, Violation};
use sim_core::json::J;
use sim_core::prng::{Hasher64, Rng};
use sim_core::stats::{self, Interval};

// ---------------------------------------------------------------------------------------------
// exact-d downhill trials on staircase landscapes

pub struct Trial {
    /// 1-based proposal number
    pub prop: usize,
    pub coord: u32,
    pub accepted: bool,
}

/// A proposal counts as a trial iff (1) the state it derives from is known from the observations
/// up to and including it, (2) it moves a coordinate that still had its start value (so it is
/// worse by exactly that coordinate's rung d), (3) the *next* observation moves another
/// coordinate before anything else happens to this one.  None of the three depends on the
/// acceptance draw of the trial itself, so the selection does not bias the acceptance frequency.
/// The outcome is then read off directly: rejected iff the coordinate is back at its start value
/// by the time another coordinate moves.
pub fn staircase_trials(run: &E1Run, tr: &Trace) -> (Vec<Trial>, usize) {
    let mut lead = 0;
    while lead < run.obs.len() && run.obs[lead].diff.is_empty() {
        lead += 1;
    }
    let mut out = Vec::new();
    if !tr.complete() {
        return (out, lead);
    }
    // proposal number of an evaluation = number of evaluations so far in which a parameter
    // demonstrably moved: an implementation may re-evaluate its current state as often as it likes
    // (bookkeeping), and those evaluations must not shift the attribution of proposals to loops
    let mut propno: Vec<usize> = Vec::with_capacity(run.obs.len());
    let mut seen = 0usize;
    for k in 0..run.obs.len() {
        let definite = k >= lead && k < tr.steps.len() && !tr.steps[k].edges.is_empty() && tr.steps[k].edges.iter().all(|e| !e.null);
        if definite {
            seen += 1;
        }
        propno.push(seen);
    }
    for k in lead..run.obs.len().saturating_sub(1) {
        let st = &tr.steps[k];
        if st.edges.is_empty() || st.edges.iter().any(|e| e.null) {
            continue;
        }
        let p0 = st.edges[0].parent;
        if st.edges.iter().any(|e| e.parent != p0) {
            continue;
        }
        let (i, from, to) = match st.edges[0].mv {
            Some(m) => m,
            None => continue,
        };
        if from != run.land.start_bits(i as usize) || to == from {
            continue;
        }
        // Walk forward to the first later observation that moves another coordinate.  In between
        // only uninformative observations are tolerated: nothing changed, or coordinate i put back
        // to its start value (bookkeeping re-evaluations, zero-size moves).  Anything else on
        // coordinate i is a second proposal on the same coordinate: the trial is dropped.
        let mut cur_i = to;
        let mut verdict: Option<bool> = None;
        let mut q = k + 1;
        while q < run.obs.len() {
            let d = &run.obs[q].diff;
            let mut other = false;
            let mut bad = false;
            for (c, b) in d.iter() {
                if *c == i {
                    if *b == from {
                        cur_i = from;
                    } else {
                        bad = true;
                    }
                } else {
                    other = true;
                }
            }
            if bad {
                break;
            }
            if other {
                verdict = Some(cur_i == to);
                break;
            }
            q += 1;
        }
        let accepted = match verdict {
            Some(a) => a,
            None => continue,
        };
        out.push(Trial { prop: propno[k].max(1), coord: i, accepted });
    }
    (out, lead)
}

fn stair_space(n: usize, salt: u64) -> ParamSpec {
    ParamSpec { n, salt, range_mode: "unit".into(), start_mode: "interior".into(), zero_width: 0.0, outside: 0.0 }
}

// ---------------------------------------------------------------------------------------------
// C07

pub struct C07;

const C07_RATIOS: [f64; 5] = [0.25, 0.5, 1.0, 2.0, 4.0];
const C07_KTS: [f64; 5] = [1e-3, 0.1, 5.0, 1e-20, 1e6];

fn c07_stat_scenarios(tier: Tier) -> u64 {
    match tier {
        Tier::Quick => 25,
        Tier::Thorough => 25 * 6,
    }
}

impl C07 {
    fn gen_stat(&self, rng: &mut Rng, tier: Tier, i: u64) -> J {
        let g = (i % 25) as usize;
        let ratio = C07_RATIOS[g % 5];
        let kt = C07_KTS[g / 5];
        let steps = 1000u64;
        let n = 4000usize;
        let trials_target: u64 = match tier {
            Tier::Quick => 50_000,
            Tier::Thorough => 1_500_000,
        };
        let loops = *rng.pick(&[1u64, 1, 4, 10]);
        J::obj()
            .set("engine", J::str("e1-landscape"))
            .set("mode", J::str("frequency"))
            .set("ratio_d_over_kt", J::f64bits(ratio))
            .set("kt", J::f64bits(kt))
            .set("steps", J::uint(steps))
            .set("inner_steps", J::uint(steps / loops))
            .set("n", J::uint(n as u64))
            .set("max_step_size", J::f64bits(*rng.pick(&[0.01, 0.1, 0.5])))
            .set("salt", J::uint(rng.next_u64() >> 12))
            .set("base_seed", J::uint(rng.below(1 << 40)))
            .set("trials_target", J::uint(trials_target))
            // a convergence threshold must not influence acceptance (it may end a run early,
            // which only means that more runs are pooled)
            .set("convergence", J::opt_f64bits(*rng.pick(&[None, Some(1e-12), Some(1e-3)])))
    }

    fn exec_stat(&self, j: &J) -> Result<RunOut, String> {
        let ratio = j.get("ratio_d_over_kt").and_then(|x| x.as_f64bits()).ok_or("ratio")?;
        let kt = j.get("kt").and_then(|x| x.as_f64bits()).ok_or("kt")?;
        let steps = j.get("steps").and_then(|x| x.as_u64()).ok_or("steps")?;
        let inner = j.get("inner_steps").and_then(|x| x.as_u64()).ok_or("inner")?;
        let n = j.get("n").and_then(|x| x.as_u64()).ok_or("n")? as usize;
        let max_step = j.get("max_step_size").and_then(|x| x.as_f64bits()).ok_or("max_step")?;
        let salt = j.get("salt").and_then(|x| x.as_u64()).ok_or("salt")?;
        let base_seed = j.get("base_seed").and_then(|x| x.as_u64()).ok_or("base_seed")?;
        let target = j.get("trials_target").and_then(|x| x.as_u64()).ok_or("trials_target")?;
        let conv = j.get("convergence").and_then(|x| x.as_f64bits());
        let d = ratio * kt;
        let ps = stair_space(n, salt);
        let mut ls = LandSpec::simple("staircase", salt);
        ls.ladder = vec![d];
        let mut out = RunOut::default();
        let mut h = Hasher64::new();
        let (mut acc, mut tot) = (0u64, 0u64);
        let mut runs = 0u64;
        let max_runs = target / 100 + 100;
        while tot < target && runs < max_runs {
            let cfg = OptCfg {
                steps,
                inner,
                kt_start: kt,
                kt_finish: None,
                kt_ratio: Some(0.0),
                max_step,
                convergence: conv,
                seed: base_seed + runs,
                order: 0,
                prior: None,
            };
            let run = run_e1(&ps, &ls, &cfg)?;
            if let Some(p) = &run.panic {
                return Err(format!("optimiser panicked in a plain configuration: {}", p));
            }
            let tr = run.trace();
            let (trials, _) = staircase_trials(&run, &tr);
            for t in &trials {
                tot += 1;
                acc += t.accepted as u64;
            }
            h.u64(run.hash());
            out.sim_steps += run.obs.len() as u64;
            if runs == 0 {
                out.sample = Some(run.head(6));
            }
            runs += 1;
        }
        out.hash = h.finish();
        out.nontrivial = acc > 0 && acc < tot;
        out.count("optimiser_runs", runs);
        out.count("probe.downhill_trials", tot);
        out.count("probe.downhill_accepted", acc);
        let want = (-ratio).exp();
        let eps = stats::hoeffding_eps(tot, stats::DELTA);
        let got = acc as f64 / tot.max(1) as f64;
        out.count("probe.frequency_undersampled", (tot < target / 2) as u64);
        if (got - want).abs() > eps {
            out.violate(Violation::new(
                "acceptance-frequency",
                0,
                format!(
                    "downhill moves of d = {:e} at kT = {:e} (d/kT = {}): accepted {} of {} = {:.5}, Metropolis says exp(-d/kT) = {:.5}; |difference| {:.5} > Hoeffding bound {:.5} (delta 1e-18)",
                    d, kt, ratio, acc, tot, got, want, (got - want).abs(), eps
                ),
            ));
        }
        Ok(out)
    }

    fn gen_det(&self, rng: &mut Rng, tier: Tier) -> J {
        let ps = gen_params(rng, &[(1, 1), (2, 3), (3, 3), (6, 3), (64, 1)]);
        let ls = gen_land_general(rng, false);
        let mut cfg = gen_cfg(rng, tier, false);
        // temperature must be known by construction: constant (cooling factor 1) or a single loop
        match rng.below(10) {
            0..=5 => cfg.kt_ratio = Some(0.0),
            // a ratio of 1 or more: kt_start during the first inner loop, exactly zero afterwards
            6 | 7 => {
                cfg.kt_ratio = Some(*rng.pick(&[1.0, 1.5, 3.0]));
                let loops = *rng.pick(&[2u64, 3, 4, 7]);
                cfg.inner = (cfg.steps / loops).max(1);
            }
            _ => cfg.inner = cfg.steps + rng.below(3),
        }
        cap_for_n(&ps, &mut cfg);
        let pre = gen_prelude(rng);
        with_prelude(scen(&ps, &ls, &cfg), pre).set("mode", J::str("clauses"))
    }

    fn exec_det(&self, j: &J) -> Result<RunOut, String> {
        let (ps, ls, cfg) = unscen(j)?;
        let two_phase = cfg.kt_ratio.map(|r| r >= 1.0).unwrap_or(false);
        let const_kt = cfg.kt_ratio == Some(0.0) || cfg.loops() <= 1;
        if !const_kt && !two_phase {
            return Err("C07 clause scenario without a temperature known by construction".into());
        }
        let kt = cfg.kt_start;
        let inner_eff = cfg.inner_eff().max(1) as usize;
        let had_prelude = run_prelude(j, &ps)?;
        let run = run_e1(&ps, &ls, &cfg)?;
        let tr = run.trace();
        let mut out = super::checks_base_out(&run, &tr);
        if run.panic.is_some() {
            return Ok(out);
        }
        // leading bookkeeping evaluations (observations identical to the input) are not proposals
        let mut lead = 0usize;
        while lead < run.obs.len() && run.obs[lead].diff.is_empty() {
            lead += 1;
        }
        // definite moves before each evaluation: a lower bound on the number of proposals made
        // before it (bookkeeping evaluations and zero-size moves are not counted)
        let mut moves_before: Vec<usize> = Vec::with_capacity(run.obs.len() + 1);
        let mut seen = 0usize;
        for k in 0..run.obs.len() {
            moves_before.push(seen);
            if k >= lead && k < tr.steps.len() && !tr.steps[k].edges.is_empty() && tr.steps[k].edges.iter().all(|e| !e.null) {
                seen += 1;
            }
        }
        let res = tr.feasible(run.x0_score, |e: &EdgeCtx| {
            if e.null {
                return Ok(());
            }
            // temperature of the inner loop this proposal belongs to: the later loops (temperature
            // zero) have begun for certain once a whole inner loop of definite moves lies behind
            let later_loop = moves_before.get(e.k).map(|m| *m >= inner_eff).unwrap_or(false);
            let kt = if two_phase && !const_kt && later_loop { 0.0 } else { kt };
            match (e.prop_score, e.parent_score) {
                (None, _) if e.accepted => Err("a proposal without a defined score (None) was accepted".to_string()),
                (Some(p), Some(c)) => {
                    if p > c && !e.accepted {
                        Err(format!("a strictly better proposal ({:e} > {:e}) was rejected", p, c))
                    } else if p == c && !e.accepted {
                        Err(format!("an equal-score proposal ({:e}) was rejected", p))
                    } else if p < c && e.accepted && kt == 0.0 {
                        Err(format!("a strictly worse proposal ({:e} < {:e}) was accepted at kT = 0", p, c))
                    } else {
                        Ok(())
                    }
                }
                _ => Ok(()),
            }
        });
        if let Err((k, why)) = res {
            let class = if why.contains("None") {
                "invalid-accepted"
            } else if why.contains("better") {
                "better-rejected"
            } else if why.contains("equal") {
                "tie-rejected"
            } else if why.contains("worse") {
                "worse-accepted-at-zero-kt"
            } else {
                "metropolis-clause"
            };
            out.violate(Violation::new(class, k as u64, format!("at score() call {}: {}", k, why)));
        }
        out.count("probe.kt_zero_runs", (kt == 0.0) as u64);
        out.count("fault.F-history(an earlier optimisation ran on the same thread)", had_prelude as u64);
        Ok(out)
    }
}

impl Check for C07 {
    fn id(&self) -> &'static str {
        "C07"
    }
    fn rule(&self) -> String {
        "scenario i < S: frequency scenario = one (d/kT, kT) grid point of {0.25,0.5,1,2,4} x {1e-20,1e-3,0.1,5,1e6}, staircase landscape with n = 4000 parameters, optimiser runs with consecutive seeds pooled until the trial target is reached (quick 5e4, thorough 1.5e6 per scenario); scenario i >= S: one clause run on a general landscape with a temperature that is constant by construction. Non-trivial: (frequency) both accepted and rejected downhill trials observed; (clause) accepted and rejected moves, or invalid/clamped proposals. Distinct: distinct history hashes (frequency: hash over all pooled runs).".into()
    }
    fn runs(&self, tier: Tier) -> u64 {
        c07_stat_scenarios(tier)
            + match tier {
                Tier::Quick => 40_000,
                Tier::Thorough => 1_000_000,
            }
    }
    fn generate(&self, rng: &mut Rng, tier: Tier, i: u64) -> J {
        if i < c07_stat_scenarios(tier) {
            self.gen_stat(rng, tier, i)
        } else {
            self.gen_det(rng, tier)
        }
    }
    fn execute(&self, j: &J) -> Result<RunOut, String> {
        match j.get("mode").and_then(|m| m.as_str()) {
            Some("frequency") => self.exec_stat(j),
            _ => self.exec_det(j),
        }
    }
    fn shrink(&self, j: &J) -> Vec<J> {
        match j.get("mode").and_then(|m| m.as_str()) {
            Some("frequency") => vec![],
            _ => shrink_e1(j).into_iter().map(|s| s.set("mode", J::str("clauses"))).filter(|s| {
                unscen(s).map(|(_, _, c)| c.kt_ratio == Some(0.0) || c.loops() <= 1 || c.kt_ratio.map(|r| r >= 1.0).unwrap_or(false)).unwrap_or(false)
            }).collect(),
        }
    }
    fn components_real(&self) -> Vec<&'static str> {
        REAL.to_vec()
    }
    fn components_stub(&self) -> Vec<&'static str> {
        STUB.to_vec()
    }
    fn assumptions(&self) -> Vec<String> {
        vec![
            "decisions are inferred from the parameter vectors seen by score(); clause violations need every consistent explanation to violate".into(),
            "frequency clause: two-sided Hoeffding bound with delta = 1e-18 per comparison (< 1e-12 per invocation); trials are selected by criteria that do not depend on the trial's own acceptance draw".into(),
            "NaN scores are not injected: the property does not say what must happen to them".into(),
        ]
    }
    fn expected_probes(&self) -> Vec<&'static str> {
        vec!["probe.downhill_trials", "probe.kt_zero_runs", "fault.F-invalid", "fault.F-tie"]
    }
}

// ---------------------------------------------------------------------------------------------
// C18

pub struct C18;

struct LoopStat {
    // per rung: (acc, n) whole loop, first half, second half
    whole: Vec<(u64, u64)>,
    first: Vec<(u64, u64)>,
    second: Vec<(u64, u64)>,
}

impl C18 {
    fn gen(&self, rng: &mut Rng, tier: Tier, i: u64) -> J {
        // every 4th scenario: very short inner loops and many of them (the step-size adaptation and
        // the cooling then interleave after almost every proposal)
        let short = i % 4 == 3;
        let loops = if short { *rng.pick(&[30u64, 60, 100]) } else { *rng.pick(&[1u64, 2, 3, 5, 10, 20]) };
        let inner = if short { *rng.pick(&[1u64, 1, 2, 3]) } else { *rng.pick(&[25u64, 50, 100]) };
        let steps = loops * inner + if rng.chance(0.3) { rng.below(inner) } else { 0 };
        // (1e-14: the schedule then crosses the machine epsilon, where a temperature is still a
        // temperature)
        let kt_start = *rng.pick(&[0.1, 0.1, 1.0, 0.01, 0.0, 1e-14]);
        // which schedule request
        let (kt_finish, kt_ratio): (Option<f64>, Option<f64>) = match (i % 4, kt_start == 0.0) {
            (_, true) => *rng.pick(&[(Some(1e-3), None), (None, Some(0.3)), (None, None), (Some(0.0), None)]),
            // (a finishing temperature of exactly zero: the first loop at kt_start, all later ones at 0)
            (0, _) | (3, _) => (Some(kt_start * *rng.pick(&[0.01, 0.1, 0.5, 0.0])), None),
            (1, _) => (None, Some(*rng.pick(&[0.0, 0.1, 0.3, 0.5]))),
            // both given: the ratio decides, whatever the finishing temperature is
            (2, _) if rng.chance(0.5) => (Some(kt_start * *rng.pick(&[0.5, 0.1, 2.0])), Some(*rng.pick(&[0.3, 0.5, 0.1]))),
            (2, _) => (Some(kt_start * *rng.pick(&[0.01, 0.1, 2.0])), None),
            _ => *rng.pick(&[(None, None), (None, Some(0.3)), (Some(kt_start * 0.01), Some(0.2))]),
        };
        let per_loop_target: u64 = match tier {
            Tier::Quick => 20_000,
            Tier::Thorough => 400_000,
        };
        // every 12th scenario: a schedule of more than 2^32 inner loops towards kt_finish, observed
        // through its first six loops (a threshold every loop meets ends each run there): the
        // factor is then 1 to within 1e-9, whatever 32-bit arithmetic makes of the loop count
        let until_converged = i % 12 == 8 && kt_start > 0.0 && kt_finish.is_some() && kt_ratio.is_none();
        let (steps, inner) = if until_converged {
            let inner = *rng.pick(&[25u64, 50]);
            let loops = *rng.pick(&[1u64 << 32, (1 << 32) + 1, (1 << 32) + 4, (1 << 32) + 1000, (1 << 33) + 3, 1 << 40]);
            (loops * inner, inner)
        } else {
            (steps, inner)
        };
        J::obj()
            .set("engine", J::str("e1-landscape"))
            .set("until_converged", J::Bool(until_converged))
            .set("steps", J::uint(steps))
            .set("inner_steps", J::uint(inner))
            .set("kt_start", J::f64bits(kt_start))
            .set("kt_finish", J::opt_f64bits(kt_finish))
            .set("kt_ratio", J::opt_f64bits(kt_ratio))
            .set("max_step_size", J::f64bits(*rng.pick(&[0.01, 0.1])))
            .set("salt", J::uint(rng.next_u64() >> 12))
            .set("base_seed", J::uint(rng.below(1 << 40)))
            .set("trials_per_loop_target", J::uint(per_loop_target))
            .set("builder_order", J::uint(if rng.chance(0.5) { 1 + rng.below(1 << 20) } else { 0 }))
            .set(
                "builder_prior",
                if rng.chance(0.4) {
                    let (a, b) = *rng.pick(&[(1u64, 1u64), (1, 1), (10, 7), (100_000, 100_000)]);
                    J::Arr(vec![J::uint(a), J::uint(b)])
                } else {
                    J::Null
                },
            )
    }
}

fn expected_factor_range(kt_start: f64, kt_finish: Option<f64>, kt_ratio: Option<f64>, loops: u64) -> Option<(f64, f64)> {
    match (kt_ratio, kt_finish) {
        (Some(r), _) => Some((1.0 - r, 1.0 - r)),
        (None, Some(fin)) => {
            if loops < 2 {
                return None;
            }
            let q = fin / kt_start;
            let a = q.powf(1.0 / loops as f64);
            let b = q.powf(1.0 / (loops as f64 - 1.0));
            Some((a.min(b), a.max(b)))
        }
        (None, None) => None,
    }
}

impl Check for C18 {
    fn id(&self) -> &'static str {
        "C18"
    }
    fn rule(&self) -> String {
        "scenario i: (kt_start, kt_finish | kt_ratio | neither, L in {1,2,3,5,10,20} inner loops of 25..100 steps or L in {30,60,100} loops of 1..3 steps, non-multiples included; every 12th scenario a kt_finish schedule of 2^32 .. 2^40 loops observed through its first six) from splitmix(VERIF_SEED,'C18',i); staircase landscape with n = 2*steps parameters and a ladder of rung sizes d spanning the expected temperatures; optimiser runs with consecutive seeds are pooled until every loop has the target number of exact-d downhill trials. Per (loop, rung) the acceptance frequency gives a Hoeffding interval for kT. Non-trivial: at least one (loop, rung) cell with both accepted and rejected trials (or, for kt_start = 0, at least 1000 downhill trials). Distinct: hash over all pooled histories.".into()
    }
    fn runs(&self, tier: Tier) -> u64 {
        match tier {
            Tier::Quick => 72,
            Tier::Thorough => 360,
        }
    }
    fn generate(&self, rng: &mut Rng, tier: Tier, i: u64) -> J {
        self.gen(rng, tier, i)
    }
    fn execute(&self, j: &J) -> Result<RunOut, String> {
        let steps = j.get("steps").and_then(|x| x.as_u64()).ok_or("steps")?;
        let inner = j.get("inner_steps").and_then(|x| x.as_u64()).ok_or("inner")?;
        let kt_start = j.get("kt_start").and_then(|x| x.as_f64bits()).ok_or("kt_start")?;
        let kt_finish = j.get("kt_finish").and_then(|x| x.as_f64bits());
        let kt_ratio = j.get("kt_ratio").and_then(|x| x.as_f64bits());
        let max_step = j.get("max_step_size").and_then(|x| x.as_f64bits()).ok_or("max_step")?;
        let salt = j.get("salt").and_then(|x| x.as_u64()).ok_or("salt")?;
        let base_seed = j.get("base_seed").and_then(|x| x.as_u64()).ok_or("base_seed")?;
        let target = j.get("trials_per_loop_target").and_then(|x| x.as_u64()).ok_or("target")?;
        let b_order = j.get("builder_order").and_then(|x| x.as_u64()).unwrap_or(0);
        let b_prior = j.get("builder_prior").and_then(|a| a.as_arr()).and_then(|a| Some((a.get(0)?.as_u64()?, a.get(1)?.as_u64()?)));
        let until_converged = j.get("until_converged").and_then(|x| x.as_bool()).unwrap_or(false);
        let inner_eff = inner.min(steps).max(1);
        let loops_requested = steps / inner_eff;
        if loops_requested == 0 {
            return Err("C18 scenario without a loop".into());
        }
        // loops that are executed and measured
        let loops = if until_converged { loops_requested.min(6) } else { loops_requested };
        // ladder: geometric rungs from 0.3*kT_min to 3*kT_max over the temperatures the request implies
        let exp_range = expected_factor_range(kt_start, kt_finish, kt_ratio, loops_requested);
        let kt_lo = if kt_start == 0.0 {
            0.01
        } else {
            match exp_range {
                Some((a, _)) => (kt_start * a.powi(loops as i32 - 1)).max(kt_start * 1e-3).min(kt_start),
                None => kt_start * 1e-3,
            }
        };
        let kt_hi = if kt_start == 0.0 {
            0.1
        } else {
            match exp_range {
                Some((_, b)) => (kt_start * b.powi(loops as i32 - 1)).max(kt_start).min(kt_start * 1e3),
                None => kt_start,
            }
        };
        let mut ladder = vec![];
        let mut d = 0.3 * kt_lo;
        while d < 3.0 * kt_hi * 1.0001 && ladder.len() < 16 {
            ladder.push(d);
            d *= 2.0;
        }
        let nr = ladder.len();
        let n = (2 * (loops * inner_eff) as usize).max(64);
        let ps = stair_space(n, salt);
        let mut ls = LandSpec::simple("staircase", salt);
        ls.ladder = ladder.clone();

        let mut stat: Vec<LoopStat> = (0..loops)
            .map(|_| LoopStat { whole: vec![(0, 0); nr], first: vec![(0, 0); nr], second: vec![(0, 0); nr] })
            .collect();
        let mut out = RunOut::default();
        let mut h = Hasher64::new();
        let mut runs = 0u64;
        let max_runs = (target / inner_eff.max(1)) * 4 + 50;
        let mut zero_kt_accept: Option<(u64, usize)> = None;
        let mut total_trials = 0u64;
        loop {
            let min_loop_trials = stat.iter().map(|s| s.whole.iter().map(|x| x.1).sum::<u64>()).min().unwrap_or(0);
            if min_loop_trials >= target || runs >= max_runs {
                break;
            }
            let cfg = OptCfg {
                steps,
                inner,
                kt_start,
                kt_finish,
                kt_ratio,
                max_step,
                convergence: if until_converged { Some(f64::INFINITY) } else { None },
                seed: base_seed + runs,
                order: b_order,
                prior: b_prior,
            };
            if until_converged {
                super::CALL_BUDGET.with(|b| b.set(60 * inner_eff + 64));
            }
            let run = run_e1(&ps, &ls, &cfg);
            super::CALL_BUDGET.with(|b| b.set(u64::MAX));
            let run = run?;
            if run.panic.is_some() {
                // not C18's business (C20); such a configuration gives no temperature reading
                out.count("probe.run_panicked", 1);
                out.hash = h.finish();
                return Ok(out);
            }
            let tr = run.trace();
            let (trials, _) = staircase_trials(&run, &tr);
            for t in &trials {
                let l = ((t.prop as u64 - 1) / inner_eff) as usize;
                if l >= loops as usize {
                    continue;
                }
                let r = t.coord as usize % nr;
                let pos_in_loop = (t.prop as u64 - 1) % inner_eff;
                let s = &mut stat[l];
                s.whole[r].1 += 1;
                s.whole[r].0 += t.accepted as u64;
                let half = if pos_in_loop < inner_eff / 2 { &mut s.first } else { &mut s.second };
                half[r].1 += 1;
                half[r].0 += t.accepted as u64;
                total_trials += 1;
                if kt_start == 0.0 && t.accepted && zero_kt_accept.is_none() {
                    zero_kt_accept = Some((runs, t.prop));
                }
            }
            h.u64(run.hash());
            out.sim_steps += run.obs.len() as u64;
            if runs == 0 {
                out.sample = Some(run.head(6));
            }
            runs += 1;
        }
        out.hash = h.finish();
        out.count("optimiser_runs", runs);
        out.count("probe.downhill_trials", total_trials);
        out.count("probe.loops_measured", loops);
        out.count("probe.schedules_of_more_than_2^32_loops", until_converged as u64);
        out.count("probe.multi_loop_scenarios", (loops >= 2) as u64);
        out.count("probe.kt_start_zero_scenarios", (kt_start == 0.0) as u64);
        out.count("probe.kt_finish_scenarios", (kt_finish.is_some() && kt_ratio.is_none() && kt_start > 0.0) as u64);
        out.count("probe.kt_ratio_scenarios", (kt_ratio.is_some() && kt_start > 0.0) as u64);

        if kt_start == 0.0 {
            out.nontrivial = total_trials >= 1000;
            if let Some((r, p)) = zero_kt_accept {
                out.violate(Violation::new(
                    "zero-temperature-left-zero",
                    p as u64,
                    format!(
                        "kt_start = 0 (kt_finish {:?}, kt_ratio {:?}): a strictly worse move was accepted at proposal {} (inner loop {}) of the run with seed {}: the temperature did not stay zero",
                        kt_finish, kt_ratio, p, (p as u64 - 1) / inner_eff + 1, base_seed + r
                    ),
                ));
            }
            return Ok(out);
        }

        // per (loop, rung) intervals
        let mut nontrivial = false;
        let mut f_all = Interval { lo: 0.0, hi: f64::INFINITY };
        let mut readings = J::arr();
        let mut worst: Option<String> = None;
        for l in 0..loops as usize {
            let mut kt_l = Interval { lo: 0.0, hi: f64::INFINITY };
            for r in 0..nr {
                let (a, n_) = stat[l].whole[r];
                if n_ < 200 {
                    continue;
                }
                if a > 0 && a < n_ {
                    nontrivial = true;
                }
                let ki = stats::kt_interval(stats::prob_interval(a, n_), ladder[r]);
                kt_l = kt_l.intersect(ki);
                // (i) constancy within the loop
                let (a1, n1) = stat[l].first[r];
                let (a2, n2) = stat[l].second[r];
                if n1 >= 200 && n2 >= 200 {
                    let i1 = stats::prob_interval(a1, n1);
                    let i2 = stats::prob_interval(a2, n2);
                    if i1.intersect(i2).is_empty() && worst.is_none() {
                        worst = Some(format!(
                            "temperature not constant within inner loop {}: rung d = {:e} accepted {}/{} in the first half and {}/{} in the second half",
                            l + 1, ladder[r], a1, n1, a2, n2
                        ));
                        out.violate(Violation::new("not-constant-within-loop", (l + 1) as u64, worst.clone().unwrap()));
                    }
                }
            }
            readings.push(J::obj().set("loop", J::uint(l as u64 + 1)).set("kt_lo", J::num(kt_l.lo)).set("kt_hi", if kt_l.hi.is_finite() { J::num(kt_l.hi) } else { J::str("inf") }));
            if kt_l.is_empty() {
                out.violate(Violation::new(
                    "no-single-temperature-in-loop",
                    (l + 1) as u64,
                    format!("inner loop {}: the rungs' acceptance frequencies are not explained by any single temperature", l + 1),
                ));
                continue;
            }
            if l == 0 {
                if !kt_l.contains(kt_start) {
                    out.violate(Violation::new(
                        "first-loop-not-at-kt-start",
                        1,
                        format!("first inner loop runs at kT in [{:e}, {:e}], requested kt_start = {:e}", kt_l.lo, kt_l.hi, kt_start),
                    ));
                }
            } else {
                let e = 1.0 / l as f64;
                let fi = Interval { lo: (kt_l.lo / kt_start).powf(e), hi: (kt_l.hi / kt_start).powf(e) };
                f_all = f_all.intersect(fi);
            }
        }
        out.nontrivial = nontrivial;
        if out.sample.is_some() {
            out.sample = Some(J::obj().set("history_head", out.sample.take().unwrap()).set("kt_per_loop", readings).set("ladder", J::Arr(ladder.iter().map(|d| J::num(*d)).collect())));
        }
        if loops >= 2 {
            if f_all.is_empty() {
                out.violate(Violation::new(
                    "no-single-cooling-factor",
                    0,
                    "the per-loop temperatures are not kt_start * f^(loop-1) for any single factor f".to_string(),
                ));
            } else if let Some((a, b)) = exp_range {
                let want = Interval { lo: a, hi: b };
                if f_all.intersect(want).is_empty() {
                    let what = if kt_ratio.is_some() {
                        format!("1 - kt_ratio = {:e}", a)
                    } else {
                        format!("the factor taking kt_start = {:e} to kt_finish = {:e} in {} loops (within one cooling step): [{:e}, {:e}]", kt_start, kt_finish.unwrap(), loops_requested, a, b)
                    };
                    out.violate(Violation::new(
                        "wrong-cooling-factor",
                        0,
                        format!("measured cooling factor per inner loop in [{:e}, {:e}], requested {}", f_all.lo, f_all.hi, what),
                    ).sig("request", if kt_ratio.is_some() { "kt_ratio" } else { "kt_finish" }));
                }
            }
        }
        Ok(out)
    }
    fn shrink(&self, _j: &J) -> Vec<J> {
        vec![]
    }
    fn components_real(&self) -> Vec<&'static str> {
        REAL.to_vec()
    }
    fn components_stub(&self) -> Vec<&'static str> {
        STUB.to_vec()
    }
    fn assumptions(&self) -> Vec<String> {
        vec![
            "temperature is not observable directly: it is inferred per inner loop from acceptance frequencies of exact-d downhill trials (Hoeffding intervals, delta 1e-18 each, < 1e-12 per invocation)".into(),
            "proposal p belongs to inner loop (p-1) / min(inner_steps, steps) + 1; leading bookkeeping evaluations are recognised as observations identical to the input".into(),
            "a finishing temperature admits any single factor between (finish/start)^(1/L) and (finish/start)^(1/(L-1)) ('within one cooling step'); with neither ratio nor finish only constancy and a single factor are required".into(),
        ]
    }
    fn expected_probes(&self) -> Vec<&'static str> {
        vec!["probe.multi_loop_scenarios", "probe.kt_start_zero_scenarios", "probe.kt_finish_scenarios", "probe.kt_ratio_scenarios"]
    }
}

// ---------------------------------------------------------------------------------------------
// C20 (optimiser part)

const C20_LENS: [u64; 9] = [0, 1, 2, 3, 7, 10, 100, 1000, 1050];

/// "Run until converged": an astronomically large `steps` with a threshold that every loop meets.
/// The run must end after exactly six inner loops, as the same run with steps = 6 * inner_steps
/// and no threshold does (the cooling factor does not depend on `steps` without kt_finish).
pub fn gen_c20_unbounded(rng: &mut Rng) -> J {
    let ps = gen_params(rng, &[(1, 1), (2, 3), (3, 3), (6, 2)]);
    let mut ls = gen_land_general(rng, false);
    ls.nan_holes = false;
    // (no pits: the threshold has to be met by every loop by construction)
    ls.abyss = None;
    let inner = *rng.pick(&[1u64, 1, 2, 3, 7, 10, 100, 1000]);
    let steps = *rng.pick(&[u64::MAX, u64::MAX, u64::MAX - 1, 1 << 63, 1 << 62, 1_000_000_000_000_000_000, 10_000_000_000_000, 1 << 40]);
    let cfg = OptCfg {
        steps,
        inner,
        kt_start: *rng.pick(&[0.0, 1e-3, 0.1, 5.0]),
        kt_finish: None,
        kt_ratio: *rng.pick(&[None, Some(0.0), Some(0.3), Some(1.0)]),
        max_step: *rng.pick(&[1e-3, 0.01, 0.1, 1.0]),
        convergence: Some(*rng.pick(&[f64::INFINITY, 1e300])),
        seed: rng.below(1 << 32),
        order: if rng.chance(0.5) { 1 + rng.below(1 << 20) } else { 0 },
        prior: None,
    };
    scen(&ps, &ls, &cfg).set("mode", J::str("optimiser-unbounded"))
}

pub fn exec_c20_unbounded(j: &J) -> Result<RunOut, String> {
    let (ps, ls, cfg) = unscen(j)?;
    let six = 6u64.saturating_mul(cfg.inner);
    if cfg.convergence.is_none() || cfg.kt_finish.is_some() || cfg.steps < six {
        return Err("scenario error: not an unbounded-steps scenario".into());
    }
    // (ten times the evaluations six loops need: bookkeeping evaluations are not rationed)
    super::CALL_BUDGET.with(|b| b.set(10 * six + 64));
    let run = run_e1(&ps, &ls, &cfg)?;
    super::CALL_BUDGET.with(|b| b.set(u64::MAX));
    let tr = run.trace();
    let mut out = super::checks_base_out(&run, &tr);
    out.nontrivial = true;
    out.count("probe.unbounded_steps_runs", 1);
    if let Some(p) = &run.panic {
        if p.starts_with(super::BUDGET_MSG) {
            out.violate(Violation::new(
                "no-early-exit",
                run.obs.len() as u64,
                format!("steps = {}, inner_steps = {}, convergence = {:e} (met by every loop): still running after {} score() evaluations; six inner loops are {} proposals", cfg.steps, cfg.inner, cfg.convergence.unwrap(), run.obs.len(), six),
            ));
        } else {
            out.violate(Violation::new("panic", run.obs.len() as u64, format!("optimise_state panicked with steps = {}, inner_steps = {}, convergence = {:e}: {}", cfg.steps, cfg.inner, cfg.convergence.unwrap(), p)).sig("zero_length", "no"));
        }
        return Ok(out);
    }
    let mut twin_cfg = cfg.clone();
    twin_cfg.steps = six;
    twin_cfg.convergence = None;
    let twin = run_e1(&ps, &ls, &twin_cfg)?;
    if twin.panic.is_some() {
        return Ok(out);
    }
    // equal histories, up to one trailing bookkeeping evaluation (no parameter moved) that only
    // one of the two exit paths makes
    let m = run.obs.iter().zip(twin.obs.iter()).take_while(|(a, b)| a.diff == b.diff && a.score.map(|x| x.to_bits()) == b.score.map(|x| x.to_bits())).count();
    // (bookkeeping = an evaluation of exactly the state that is then returned)
    let (short, long, long_run) = if run.obs.len() <= twin.obs.len() { (&run.obs, &twin.obs, &twin) } else { (&twin.obs, &run.obs, &run) };
    let last_vec = |r: &E1Run| -> Vec<u64> {
        let mut v = r.x0.clone();
        for o in &r.obs {
            for (i, b) in &o.diff {
                v[*i as usize] = *b;
            }
        }
        v
    };
    let trailing_bookkeeping = long.len() == short.len() + 1 && long_run.ret_basis.as_ref() == Some(&last_vec(long_run));
    let same = m == short.len() && (long.len() == short.len() || trailing_bookkeeping);
    if !same {
        let class = if m == run.obs.len().min(twin.obs.len()) && run.obs.len() < twin.obs.len() { "early-exit-too-soon" } else if m == twin.obs.len() { "no-early-exit" } else { "convergence-run-not-a-prefix" };
        out.violate(Violation::new(
            class,
            m as u64,
            format!("steps = {}, inner_steps = {}, convergence = {:e}: {} score() evaluations, the run of exactly six inner loops without a threshold makes {}; histories agree up to call {}", cfg.steps, cfg.inner, cfg.convergence.unwrap(), run.obs.len(), twin.obs.len(), m),
        ));
    }
    Ok(out)
}

pub fn gen_c20_e1(rng: &mut Rng, _tier: Tier) -> J {
    let mut ps = gen_params(rng, &[(1, 1), (2, 3), (3, 3), (6, 3), (64, 1)]);
    if rng.chance(0.04) {
        // F-outside taken to its end: ranges whose bounds are the wrong way round
        ps.range_mode = "inverted".into();
    }
    let ls = gen_land_general(rng, false);
    let steps = *rng.pick(&C20_LENS);
    let inner = if rng.chance(0.8) { *rng.pick(&C20_LENS) } else { rng.range_u64(1, 40) };
    let kt_start = *rng.pick(&[0.0, 0.0, 1e-3, 0.1, 5.0]);
    let (kt_finish, kt_ratio) = *rng.pick(&[
        (None, None),
        (Some(0.0), None),
        (Some(1e-3), None),
        (None, Some(0.0)),
        (None, Some(0.3)),
        (None, Some(1.0)),
    ]);
    let mut cfg = OptCfg {
        steps,
        inner,
        kt_start,
        kt_finish,
        kt_ratio,
        max_step: *rng.pick(&[0.0, 1e-3, 0.01, 0.1, 1.0]),
        convergence: *rng.pick(&[None, Some(0.0), Some(1e-9), Some(1e-3), Some(1e9), Some(-1e-9), Some(-0.5)]),
        seed: rng.below(1 << 32),
        order: if rng.chance(0.5) { 1 + rng.below(1 << 20) } else { 0 },
        prior: if rng.chance(0.25) { Some((*rng.pick(&[1u64, 10, 100_000]), *rng.pick(&[1u64, 7, 100_000]))) } else { None },
    };
    cap_for_n(&ps, &mut cfg);
    let pre = gen_prelude(rng);
    with_prelude(scen(&ps, &ls, &cfg), pre).set("mode", J::str("optimiser"))
}

pub fn exec_c20_e1(j: &J) -> Result<RunOut, String> {
    let (ps, ls, cfg) = unscen(j)?;
    let had_prelude = run_prelude(j, &ps)?;
    let run = run_e1(&ps, &ls, &cfg)?;
    let tr = run.trace();
    let mut out = super::checks_base_out(&run, &tr);
    out.count("fault.F-history(an earlier optimisation ran on the same thread)", had_prelude as u64);
    out.count("fault.F-zero", (cfg.steps == 0 || cfg.inner == 0) as u64);
    out.count("probe.inner_gt_steps", (cfg.inner > cfg.steps) as u64);
    out.count("probe.non_multiple", (cfg.inner > 0 && cfg.steps % cfg.inner.max(1) != 0) as u64);
    if cfg.steps == 0 || cfg.inner == 0 || cfg.inner > cfg.steps {
        out.nontrivial = true;
    }
    // (i) no panic
    if let Some(p) = &run.panic {
        out.violate(
            Violation::new("panic", run.obs.len() as u64, format!("optimise_state panicked with steps = {}, inner_steps = {}: {}", cfg.steps, cfg.inner, p))
                .sig("zero_length", if cfg.steps == 0 || cfg.inner == 0 { "yes" } else { "no" }),
        );
        return Ok(out);
    }
    // (ii) amount of work: calls = proposals + up to 2 bookkeeping evaluations
    let calls = run.obs.len() as u64;
    let inner_eff = cfg.inner.min(cfg.steps);
    // An evaluation of a state that equals a possible current state (nothing moved) is
    // bookkeeping or a no-op proposal; either way it is not a proposal that can be told apart,
    // and an implementation is free to make as many of them as it likes.  What `steps` bounds
    // are the evaluations in which a parameter demonstrably moved (clause below).
    // (inner_steps = 0 has no defined loop length: the lower bound and the loop-boundary clauses are
    // not applied to it, only no-panic, the upper bound and the prefix property)
    if cfg.convergence.is_none() && cfg.inner > 0 && calls + inner_eff < cfg.steps {
        out.violate(Violation::new("too-few-proposals", calls, format!("{} score() evaluations for steps = {}, inner_steps = {}: fewer than steps minus one inner loop", calls, cfg.steps, cfg.inner)));
    }
    // definite moves can never exceed steps either
    let definite = tr.steps.iter().filter(|s| !s.edges.is_empty() && s.edges.iter().all(|e| !e.null)).count() as u64;
    if tr.complete() && definite > cfg.steps {
        out.violate(Violation::new("too-many-proposals", calls, format!("{} observed parameter moves for steps = {}", definite, cfg.steps)));
    }
    // (iii) convergence twin
    if let Some(thr) = cfg.convergence {
        let mut twin_cfg = cfg.clone();
        twin_cfg.convergence = None;
        let twin = run_e1(&ps, &ls, &twin_cfg)?;
        if twin.panic.is_some() {
            return Ok(out);
        }
        let w = &run.obs;
        let t = &twin.obs;
        let mut m = 0;
        while m < w.len() && m < t.len() && w[m].diff == t[m].diff && w[m].score.map(|x| x.to_bits()) == t[m].score.map(|x| x.to_bits()) {
            m += 1;
        }
        let exact_prefix = m == w.len();
        // allow one trailing bookkeeping evaluation (an observation identical to a possible current state)
        let trailing_null = m + 1 == w.len() && tr.complete() && tr.steps[m].edges.iter().any(|e| e.null);
        if !(exact_prefix || trailing_null) {
            out.violate(Violation::new(
                "convergence-run-not-a-prefix",
                m as u64,
                format!("with convergence = {:e} the history diverges from the run without it at score() call {} (of {} / {})", thr, m, w.len(), t.len()),
            ));
            return Ok(out);
        }
        if !(exact_prefix && w.len() == t.len()) {
            // ended early: proposals made = common prefix minus the leading bookkeeping call
            let mut lead = 0;
            while lead < t.len() && t[lead].diff.is_empty() && lead < 1 {
                lead += 1;
            }
            if m < lead {
                return Ok(out);
            }
            let props = (m - lead) as u64;
            out.count("probe.early_exit", 1);
            out.nontrivial = true;
            // The loop-boundary clauses read "evaluation k is proposal k".  That is exact when the
            // run without a threshold makes one evaluation per proposal plus at most two
            // bookkeeping ones; an implementation that also re-evaluates its current state now and
            // then (a drift check per loop, say) is free to do so, and its evaluations cannot be
            // numbered as proposals: for it only the prefix property above is decided.
            let expected_props = if cfg.inner > 0 { (cfg.steps / cfg.inner) * cfg.inner } else { 0 };
            if cfg.inner > 0 && t.len() as u64 > expected_props + 2 {
                out.count("probe.extra_bookkeeping_evaluations(loop clauses not applied)", 1);
                return Ok(out);
            }
            let ttr = twin.trace();
            let res = ttr.score_after();
            let score_after = |p: u64| -> Option<f64> {
                // score held after proposal p (p = 0: the input)
                if p == 0 {
                    return twin.x0_score;
                }
                let k = lead + p as usize - 1;
                res.get(k).and_then(|r| *r).and_then(|r| r)
            };
            if inner_eff == 0 {
                out.count("probe.early_exit_with_undefined_loop_length", 1);
            } else {
                // The run may end with a bookkeeping evaluation of its unchanged state (a final
                // assertion on the early-exit path too).  When the last common evaluations are
                // indistinguishable from such bookkeeping (nothing moved: zero-size or clamped
                // proposals look the same), the number of proposals made is `props` or one or two
                // fewer; the clauses hold if they hold for one of these readings.
                let mut trailing_nulls = 0u64;
                while trailing_nulls < 2 && (trailing_nulls as usize) < m.saturating_sub(lead) {
                    let k = m - 1 - trailing_nulls as usize;
                    let is_null = tr.complete() && tr.steps.get(k).map(|st| st.edges.iter().any(|e| e.null)).unwrap_or(false);
                    if !is_null {
                        break;
                    }
                    trailing_nulls += 1;
                }
                let judge = |props: u64| -> (Option<Violation>, bool) {
                    if props % inner_eff != 0 {
                        return (Some(Violation::new("early-exit-inside-loop", m as u64, format!("run with convergence stopped after {} proposals, not on an inner-loop boundary (inner_steps {})", props, inner_eff))), false);
                    }
                    let l = props / inner_eff;
                    if l < 6 {
                        return (Some(Violation::new("early-exit-too-soon", m as u64, format!("run with convergence = {:e} stopped after {} inner loops; more than five consecutive flat loops are required", thr, l))), false);
                    }
                    let mut unresolved = false;
                    for q in (l - 5)..=l {
                        match (score_after((q - 1) * inner_eff), score_after(q * inner_eff)) {
                            (Some(a), Some(b)) => {
                                if !(b - a < thr) {
                                    return (
                                        Some(Violation::new(
                                            "early-exit-too-soon",
                                            m as u64,
                                            format!("run with convergence = {:e} stopped after loop {}, but loop {} improved the score by {:e} (>= threshold)", thr, l, q, b - a),
                                        )),
                                        false,
                                    );
                                }
                            }
                            _ => unresolved = true,
                        }
                    }
                    (None, unresolved)
                };
                let mut first: Option<Violation> = None;
                let mut ok = false;
                for back in 0..=trailing_nulls.min(props) {
                    match judge(props - back) {
                        (None, unresolved) => {
                            out.count("probe.early_exit_unresolved", unresolved as u64);
                            ok = true;
                            break;
                        }
                        (Some(v), _) => {
                            if first.is_none() {
                                first = Some(v);
                            }
                        }
                    }
                }
                if !ok {
                    if let Some(v) = first {
                        out.violate(v);
                    }
                }
            }
        }
    }
    Ok(out)
}

pub fn shrink_c20_e1(j: &J) -> Vec<J> {
    shrink_e1(j).into_iter().map(|s| s.set("mode", J::str("optimiser"))).collect()
}
