//! E1 — scripted-landscape simulation of the optimiser.
//!
//! Real code: `BuildOptimiser::build`, `MCOptimiser::optimise_state`, `StandardBasis`,
//! `SharedValue`, rand / rand_pcg.  Stub: the `State` implementor (this file), whose score is a
//! deterministic function of the parameter vector chosen by the scenario.

pub mod tracker;
pub mod checks;
pub mod checks2;
pub use checks::base_out as checks_base_out;

use packing::traits::{Basis, State, ToSVG};
use packing::{BuildOptimiser, MCOptimiser, SharedValue, StandardBasis};
use serde::ser::{Serialize, SerializeSeq, Serializer};
use sim_core::json::J;
use sim_core::prng::{splitmix64, Hasher64, Rng};
use std::cmp::Ordering;
use std::sync::{Arc, Mutex};
use structopt::StructOpt;
use tracker::Obs;

// ---------------------------------------------------------------------------------------------
// optimiser configuration

#[derive(Clone, Debug, PartialEq)]
pub struct OptCfg {
    pub steps: u64,
    pub inner: u64,
    pub kt_start: f64,
    pub kt_finish: Option<f64>,
    pub kt_ratio: Option<f64>,
    pub max_step: f64,
    pub convergence: Option<f64>,
    pub seed: u64,
    /// order in which the builder's setters are called (0 = steps, inner_steps, kt_start, ...;
    /// otherwise a permutation drawn from this number): the optimiser built must not depend on it
    pub order: u64,
    /// the builder configured (and built) another run with these (steps, inner_steps) before being
    /// reconfigured completely for this one
    pub prior: Option<(u64, u64)>,
}

impl OptCfg {
    pub fn to_json(&self) -> J {
        J::obj()
            .set("steps", J::uint(self.steps))
            .set("inner_steps", J::uint(self.inner))
            .set("kt_start", J::f64bits(self.kt_start))
            .set("kt_finish", J::opt_f64bits(self.kt_finish))
            .set("kt_ratio", J::opt_f64bits(self.kt_ratio))
            .set("max_step_size", J::f64bits(self.max_step))
            .set("convergence", J::opt_f64bits(self.convergence))
            .set("seed", J::uint(self.seed))
            .set("builder_order", J::uint(self.order))
            .set(
                "builder_prior",
                match self.prior {
                    Some((a, b)) => J::Arr(vec![J::uint(a), J::uint(b)]),
                    None => J::Null,
                },
            )
    }
    pub fn from_json(j: &J) -> Result<OptCfg, String> {
        let f = |k: &str| -> Result<f64, String> {
            j.get(k).and_then(|x| x.as_f64bits()).ok_or(format!("optcfg: missing {}", k))
        };
        let o = |k: &str| -> Option<f64> { j.get(k).and_then(|x| x.as_f64bits()) };
        let u = |k: &str| -> Result<u64, String> {
            j.get(k).and_then(|x| x.as_u64()).ok_or(format!("optcfg: missing {}", k))
        };
        Ok(OptCfg {
            steps: u("steps")?,
            inner: u("inner_steps")?,
            kt_start: f("kt_start")?,
            kt_finish: o("kt_finish"),
            kt_ratio: o("kt_ratio"),
            max_step: f("max_step_size")?,
            convergence: o("convergence"),
            seed: u("seed")?,
            order: j.get("builder_order").and_then(|x| x.as_u64()).unwrap_or(0),
            prior: j.get("builder_prior").and_then(|a| a.as_arr()).and_then(|a| Some((a.get(0)?.as_u64()?, a.get(1)?.as_u64()?))),
        })
    }
    /// Build through the public API only.  `kt_finish = None` is reachable only through the
    /// StructOpt parser (the builder's `kt_finish` setter takes a plain f64 and `Default` sets
    /// Some(0.001)), so that is what is used, exactly as the CLI does.
    pub fn builder(&self) -> Result<BuildOptimiser, String> {
        let mut b: BuildOptimiser = match self.kt_finish {
            Some(f) => {
                let mut b = BuildOptimiser::default();
                b.kt_finish(f);
                b
            }
            None => BuildOptimiser::from_iter_safe(&["opt"]).map_err(|e| format!("structopt: {}", e))?,
        };
        if let Some((ps, pi)) = self.prior {
            // builder reuse: it is first set up for (and builds) some other run
            b.steps(ps).inner_steps(pi).kt_start(0.5).max_step_size(0.3).seed(1);
            let _ = b.build();
        }
        let me = self.clone();
        let mut setters: Vec<Box<dyn Fn(&mut BuildOptimiser)>> = vec![
            Box::new(move |b| {
                b.steps(me.steps);
            }),
            Box::new(move |b| {
                b.inner_steps(me.inner);
            }),
            Box::new(move |b| {
                b.kt_start(me.kt_start);
            }),
            Box::new(move |b| {
                b.kt_ratio(me.kt_ratio);
            }),
            Box::new(move |b| {
                b.max_step_size(me.max_step);
            }),
            Box::new(move |b| {
                b.convergence(me.convergence);
            }),
            Box::new(move |b| {
                b.seed(me.seed);
            }),
        ];
        if let Some(f) = self.kt_finish {
            setters.push(Box::new(move |b| {
                b.kt_finish(f);
            }));
        }
        if self.order != 0 {
            let mut rng = Rng::new(self.order);
            for i in (1..setters.len()).rev() {
                let j = rng.below(i as u64 + 1) as usize;
                setters.swap(i, j);
            }
        }
        for f in &setters {
            f(&mut b);
        }
        Ok(b)
    }
    pub fn inner_eff(&self) -> u64 {
        self.inner.min(self.steps)
    }
    pub fn loops(&self) -> u64 {
        if self.inner_eff() == 0 {
            0
        } else {
            self.steps / self.inner_eff()
        }
    }
}

// ---------------------------------------------------------------------------------------------
// parameter space and landscapes (all procedural: a scenario stays small for any n)

fn h3(salt: u64, i: u64, field: u64) -> u64 {
    let mut s = salt ^ i.wrapping_mul(0x9E37_79B9_7F4A_7C15) ^ field.wrapping_mul(0xC2B2_AE3D_27D4_EB4F);
    splitmix64(&mut s)
}
fn u01(x: u64) -> f64 {
    (x >> 11) as f64 * (1.0 / (1u64 << 53) as f64)
}

#[derive(Clone, Debug, PartialEq)]
pub struct ParamSpec {
    pub n: usize,
    pub salt: u64,
    /// "unit" [0,1] | "sym" [-0.5,0.5] | "wide" log-uniform widths 1e-6..1e6 | "mixed"
    pub range_mode: String,
    /// "interior" | "bounds" | "mixed"
    pub start_mode: String,
    /// fraction of coordinates with min == max
    pub zero_width: f64,
    /// fraction of coordinates whose start value lies OUTSIDE [min, max] (states read from a file
    /// or built by hand can carry such values; proposals are clamped into the range, a rejected
    /// proposal must still restore the out-of-range value bit for bit)
    pub outside: f64,
}

impl ParamSpec {
    pub fn to_json(&self) -> J {
        J::obj()
            .set("n", J::uint(self.n as u64))
            .set("salt", J::uint(self.salt))
            .set("range_mode", J::str(self.range_mode.clone()))
            .set("start_mode", J::str(self.start_mode.clone()))
            .set("zero_width", J::f64bits(self.zero_width))
            .set("outside", J::f64bits(self.outside))
    }
    pub fn from_json(j: &J) -> Result<ParamSpec, String> {
        Ok(ParamSpec {
            n: j.get("n").and_then(|x| x.as_u64()).ok_or("params.n")? as usize,
            salt: j.get("salt").and_then(|x| x.as_u64()).ok_or("params.salt")?,
            range_mode: j.get("range_mode").and_then(|x| x.as_str()).ok_or("params.range_mode")?.to_string(),
            start_mode: j.get("start_mode").and_then(|x| x.as_str()).ok_or("params.start_mode")?.to_string(),
            zero_width: j.get("zero_width").and_then(|x| x.as_f64bits()).unwrap_or(0.0),
            outside: j.get("outside").and_then(|x| x.as_f64bits()).unwrap_or(0.0),
        })
    }
    pub fn bounds(&self, i: usize) -> (f64, f64) {
        let i64_ = i as u64;
        // "inverted": as "mixed", but about half of the parameters declare a lower bound above
        // their upper bound (what a real cell smaller than its fixed minimum length declares)
        let inverted = self.range_mode == "inverted" && h3(self.salt, i64_, 12) & 1 == 1;
        let mode: &str = match self.range_mode.as_str() {
            "mixed" | "inverted" => ["unit", "sym", "wide"][(h3(self.salt, i64_, 1) % 3) as usize],
            m => m,
        };
        let (lo, hi) = match mode {
            "unit" => (0.0, 1.0),
            "sym" => (-0.5, 0.5),
            _ => {
                let w = (1e-6f64.ln() + (1e6f64.ln() - 1e-6f64.ln()) * u01(h3(self.salt, i64_, 2))).exp();
                let off = (u01(h3(self.salt, i64_, 3)) - 0.5) * 10.0 * w;
                (off, off + w)
            }
        };
        if self.zero_width > 0.0 && u01(h3(self.salt, i64_, 4)) < self.zero_width {
            (lo, lo)
        } else if inverted {
            (hi, lo)
        } else {
            (lo, hi)
        }
    }
    pub fn start(&self, i: usize) -> f64 {
        let (lo, hi) = self.bounds(i);
        let i64_ = i as u64;
        if self.outside > 0.0 && u01(h3(self.salt, i64_, 8)) < self.outside {
            let w = if hi > lo { hi - lo } else { 1.0 };
            let off = w * (0.05 + 0.6 * u01(h3(self.salt, i64_, 9)));
            return if h3(self.salt, i64_, 10) & 1 == 0 { hi + off } else { lo - off };
        }
        let mode: &str = match self.start_mode.as_str() {
            "mixed" => ["interior", "interior", "bounds"][(h3(self.salt, i64_, 5) % 3) as usize],
            m => m,
        };
        match mode {
            "bounds" => {
                if h3(self.salt, i64_, 6) & 1 == 0 {
                    lo
                } else {
                    hi
                }
            }
            _ => lo + (hi - lo) * (0.25 + 0.5 * u01(h3(self.salt, i64_, 7))),
        }
    }
}

#[derive(Clone, Debug, PartialEq)]
pub struct LandSpec {
    /// "peak" | "plateau" | "rugged" | "staircase"
    pub kind: String,
    pub salt: u64,
    /// rugged: quantum as a fraction of each range; amplitude
    pub quantum: f64,
    pub amp: f64,
    /// staircase: rung values d (coordinate i uses ladder[i % len])
    pub ladder: Vec<f64>,
    /// cliff: valid box half-width as a fraction of the range around the start (None = no cliff);
    /// 0.0 = only the start point itself is valid in that coordinate
    pub cliff: Option<f64>,
    /// probability that a quantised cell (other than the start's) is invalid
    pub holes: f64,
    /// invalid cells report Some(NaN) (like an LJ state with coincident particles) instead of None
    pub nan_holes: bool,
    /// pits: a hash-chosen 30 % of the quantised cells (and, for odd salts, the start's cell) score
    /// lower by this depth (1e16 .. 1e300): scores of wildly different magnitude in one landscape,
    /// so that any bookkeeping done with differences instead of scores loses the small ones
    pub abyss: Option<f64>,
}

impl LandSpec {
    pub fn to_json(&self) -> J {
        J::obj()
            .set("kind", J::str(self.kind.clone()))
            .set("salt", J::uint(self.salt))
            .set("quantum", J::f64bits(self.quantum))
            .set("amp", J::f64bits(self.amp))
            .set("ladder", J::Arr(self.ladder.iter().map(|d| J::f64bits(*d)).collect()))
            .set("cliff", J::opt_f64bits(self.cliff))
            .set("holes", J::f64bits(self.holes))
            .set("nan_holes", J::Bool(self.nan_holes))
            .set("abyss", J::opt_f64bits(self.abyss))
    }
    pub fn from_json(j: &J) -> Result<LandSpec, String> {
        Ok(LandSpec {
            kind: j.get("kind").and_then(|x| x.as_str()).ok_or("land.kind")?.to_string(),
            salt: j.get("salt").and_then(|x| x.as_u64()).ok_or("land.salt")?,
            quantum: j.get("quantum").and_then(|x| x.as_f64bits()).unwrap_or(0.1),
            amp: j.get("amp").and_then(|x| x.as_f64bits()).unwrap_or(1.0),
            ladder: j
                .get("ladder")
                .and_then(|x| x.as_arr())
                .map(|a| a.iter().filter_map(|x| x.as_f64bits()).collect())
                .unwrap_or_default(),
            cliff: j.get("cliff").and_then(|x| x.as_f64bits()),
            holes: j.get("holes").and_then(|x| x.as_f64bits()).unwrap_or(0.0),
            nan_holes: j.get("nan_holes").and_then(|x| x.as_bool()).unwrap_or(false),
            abyss: j.get("abyss").and_then(|x| x.as_f64bits()),
        })
    }
    pub fn simple(kind: &str, salt: u64) -> LandSpec {
        LandSpec { kind: kind.into(), salt, quantum: 0.1, amp: 1.0, ladder: vec![], cliff: None, holes: 0.0, nan_holes: false, abyss: None }
    }
}

/// Landscape compiled for one parameter space.
pub struct Landscape {
    spec: LandSpec,
    lo: Vec<f64>,
    width: Vec<f64>,
    start: Vec<f64>,
    target: Vec<f64>,
    weight: Vec<f64>,
    rung: Vec<f64>,
    box_lo: Vec<f64>,
    box_hi: Vec<f64>,
    start_cell_hash: u64,
}

impl Landscape {
    pub fn compile(spec: &LandSpec, ps: &ParamSpec) -> Landscape {
        let n = ps.n;
        let mut l = Landscape {
            spec: spec.clone(),
            lo: Vec::with_capacity(n),
            width: Vec::with_capacity(n),
            start: Vec::with_capacity(n),
            target: Vec::with_capacity(n),
            weight: Vec::with_capacity(n),
            rung: Vec::with_capacity(n),
            box_lo: Vec::with_capacity(n),
            box_hi: Vec::with_capacity(n),
            start_cell_hash: 0,
        };
        for i in 0..n {
            let (lo, hi) = ps.bounds(i);
            // (the landscape is a function of the numbers; which way round a range is declared
            // only matters to the basis handles)
            let (lo, hi) = if lo <= hi { (lo, hi) } else { (hi, lo) };
            let w = hi - lo;
            let s = ps.start(i);
            l.lo.push(lo);
            l.width.push(w);
            l.start.push(s);
            l.target.push(lo + w * u01(h3(spec.salt, i as u64, 11)));
            l.weight.push(if w > 0.0 { 1.0 / w } else { 1.0 });
            l.rung.push(if spec.ladder.is_empty() { 1.0 } else { spec.ladder[i % spec.ladder.len()] });
            match spec.cliff {
                Some(c) => {
                    l.box_lo.push(s - c * w);
                    l.box_hi.push(s + c * w);
                }
                None => {
                    l.box_lo.push(f64::NEG_INFINITY);
                    l.box_hi.push(f64::INFINITY);
                }
            }
        }
        let sv: Vec<f64> = l.start.clone();
        l.start_cell_hash = l.cell_hash(&sv);
        l
    }

    fn cell_hash(&self, p: &[f64]) -> u64 {
        let mut h = Hasher64::new();
        h.u64(self.spec.salt);
        for i in 0..p.len() {
            let q = if self.width[i] > 0.0 {
                ((p[i] - self.lo[i]) / (self.width[i] * self.spec.quantum)).floor() as i64
            } else {
                0
            };
            h.u64(q as u64);
        }
        h.finish()
    }

    pub fn eval(&self, p: &[f64]) -> Option<f64> {
        if self.spec.cliff.is_some() {
            for i in 0..p.len() {
                if p[i] < self.box_lo[i] || p[i] > self.box_hi[i] {
                    return None;
                }
            }
        }
        let need_hash = self.spec.holes > 0.0 || self.spec.kind == "rugged" || self.spec.abyss.is_some();
        let ch = if need_hash { self.cell_hash(p) } else { 0 };
        if self.spec.holes > 0.0 && ch != self.start_cell_hash {
            let mut s = ch ^ 0x5555_aaaa_5555_aaaa;
            if u01(splitmix64(&mut s)) < self.spec.holes {
                return if self.spec.nan_holes { Some(f64::NAN) } else { None };
            }
        }
        let pit = match self.spec.abyss {
            Some(depth) if self.spec.kind != "script" && self.spec.kind != "staircase" => {
                let mut s = ch ^ 0x0f0f_3c3c_a5a5_9696;
                if (ch == self.start_cell_hash && self.spec.salt & 1 == 1) || (ch != self.start_cell_hash && u01(splitmix64(&mut s)) < 0.3) {
                    depth
                } else {
                    0.0
                }
            }
            _ => 0.0,
        };
        Some(-pit + match self.spec.kind.as_str() {
            "peak" => {
                let mut s = 0.0;
                for i in 0..p.len() {
                    s -= self.weight[i] * (p[i] - self.target[i]).abs();
                }
                s * self.spec.amp
            }
            "plateau" => self.spec.amp,
            // only the harness's own look at the start state comes here for scripts
            "script" => 0.0,
            "rugged" => {
                let mut s = ch;
                u01(splitmix64(&mut s)) * self.spec.amp
            }
            "staircase" => {
                let mut s = 0.0;
                for i in 0..p.len() {
                    if p[i].to_bits() != self.start[i].to_bits() {
                        s -= self.rung[i];
                    }
                }
                s
            }
            other => panic!("unknown landscape kind {}", other),
        })
    }
    pub fn is_script(&self) -> bool {
        self.spec.kind == "script"
    }
    /// scripted decision for evaluation k (accept probability = spec.quantum)
    pub fn script_accept(&self, k: u64) -> bool {
        // phased scripts (ladder = [L, M]): L evaluations that are all announced worse, then M
        // evaluations accepted with the scripted probability, and again - long rejection streaks
        // followed by recoveries, which random rejection rates never produce
        if self.spec.ladder.len() == 2 {
            let (l, m) = (self.spec.ladder[0] as u64, (self.spec.ladder[1] as u64).max(1));
            if (k.saturating_sub(1)) % (l + m) < l {
                return false;
            }
        }
        u01(h3(self.spec.salt, k, 21)) < self.spec.quantum
    }
    pub fn rung_of(&self, i: usize) -> f64 {
        self.rung[i]
    }
    pub fn start_bits(&self, i: usize) -> u64 {
        self.start[i].to_bits()
    }
}

// ---------------------------------------------------------------------------------------------
// the scripted State

pub struct Recorder {
    pub prev: Vec<u64>,
    pub obs: Vec<Obs>,
    scratch: Vec<f64>,
    /// "script" landscapes: the score the scripted state currently pretends to hold
    script_best: f64,
    script_calls: u64,
}

pub struct ScriptedState {
    params: Vec<SharedValue>,
    bounds: Arc<Vec<(f64, f64)>>,
    land: Arc<Landscape>,
    rec: Arc<Mutex<Recorder>>,
}

impl ScriptedState {
    fn read(&self, out: &mut Vec<f64>) {
        out.clear();
        out.extend(self.params.iter().map(|p| p.get_value()));
    }
    fn eval_silent(&self) -> Option<f64> {
        let mut v = Vec::new();
        self.read(&mut v);
        self.land.eval(&v)
    }
}

impl Clone for ScriptedState {
    fn clone(&self) -> Self {
        ScriptedState {
            params: self.params.iter().map(|p| SharedValue::new(p.get_value())).collect(),
            bounds: self.bounds.clone(),
            land: self.land.clone(),
            rec: self.rec.clone(),
        }
    }
}
impl std::fmt::Debug for ScriptedState {
    fn fmt(&self, f: &mut std::fmt::Formatter) -> std::fmt::Result {
        write!(f, "ScriptedState(n={})", self.params.len())
    }
}
impl PartialEq for ScriptedState {
    fn eq(&self, o: &Self) -> bool {
        self.eval_silent() == o.eval_silent()
    }
}
impl Eq for ScriptedState {}
impl PartialOrd for ScriptedState {
    fn partial_cmp(&self, o: &Self) -> Option<Ordering> {
        Some(self.cmp(o))
    }
}
impl Ord for ScriptedState {
    fn cmp(&self, o: &Self) -> Ordering {
        match (self.eval_silent(), o.eval_silent()) {
            (Some(a), Some(b)) => a.partial_cmp(&b).unwrap_or(Ordering::Equal),
            (None, Some(_)) => Ordering::Less,
            (Some(_), None) => Ordering::Greater,
            (None, None) => Ordering::Equal,
        }
    }
}
impl Serialize for ScriptedState {
    fn serialize<S: Serializer>(&self, s: S) -> Result<S::Ok, S::Error> {
        let mut seq = s.serialize_seq(Some(self.params.len()))?;
        for p in &self.params {
            seq.serialize_element(&p.get_value())?;
        }
        seq.end()
    }
}
impl ToSVG for ScriptedState {
    type Value = svg::Document;
    fn as_svg(&self) -> Self::Value {
        svg::Document::new()
    }
}

thread_local! {
    /// upper bound on score() evaluations of one simulated run (scenarios whose run must end
    /// after a known number of steps although `steps` is astronomically large)
    pub static CALL_BUDGET: std::cell::Cell<u64> = std::cell::Cell::new(u64::MAX);
}
pub const BUDGET_MSG: &str = "verif: score() call budget exhausted";

impl State for ScriptedState {
    fn score(&self) -> Option<f64> {
        let mut rec = self.rec.lock().unwrap();
        if rec.obs.len() as u64 >= CALL_BUDGET.with(|b| b.get()) {
            drop(rec);
            panic!("{}", BUDGET_MSG);
        }
        let rec = &mut *rec;
        rec.scratch.clear();
        let mut diff = Vec::new();
        for (i, p) in self.params.iter().enumerate() {
            let v = p.get_value();
            let b = v.to_bits();
            if b != rec.prev[i] {
                diff.push((i as u32, b));
                rec.prev[i] = b;
            }
            rec.scratch.push(v);
        }
        let score = if self.land.is_script() {
            // decision-scripted scores: the k-th evaluation announces "better" or "worse" whatever
            // the parameters are (history dependent on purpose: C06 quantifies over every sequence
            // of accept/reject decisions, including a rejected proposal that changed nothing)
            let k = rec.script_calls;
            rec.script_calls += 1;
            if k == 0 {
                Some(rec.script_best)
            } else if self.land.script_accept(k) {
                rec.script_best += 1.0;
                Some(rec.script_best)
            } else {
                Some(rec.script_best - 0.5 - (k % 7) as f64)
            }
        } else {
            self.land.eval(&rec.scratch)
        };
        rec.obs.push(Obs { diff, score });
        score
    }
    fn generate_basis(&self) -> Vec<StandardBasis> {
        self.params
            .iter()
            .zip(self.bounds.iter())
            .map(|(p, (lo, hi))| StandardBasis::new(p, *lo, *hi))
            .collect()
    }
    fn total_shapes(&self) -> usize {
        1
    }
    fn as_positions(&self) -> Result<String, anyhow::Error> {
        Ok(String::new())
    }
}

// ---------------------------------------------------------------------------------------------
// one simulated optimiser run

pub struct E1Run {
    pub x0: Vec<u64>,
    pub x0_score: Option<f64>,
    pub bounds: Arc<Vec<(f64, f64)>>,
    /// observations made inside optimise_state
    pub obs: Vec<Obs>,
    /// parameters of the returned object as seen by its own score() (None if it panicked)
    pub ret: Option<Vec<u64>>,
    /// the same, read through generate_basis()[i].get_value()
    pub ret_basis: Option<Vec<u64>>,
    /// and as serialised by the returned object
    pub ret_json: Option<String>,
    pub ret_score: Option<Option<f64>>,
    pub panic: Option<String>,
    pub land: Arc<Landscape>,
}

thread_local! {
    static LAST_PANIC: std::cell::RefCell<Option<String>> = std::cell::RefCell::new(None);
}

pub fn install_quiet_panic_hook() {
    use std::sync::Once;
    static ONCE: Once = Once::new();
    ONCE.call_once(|| {
        let verbose = std::env::var("SIM_VERBOSE_PANIC").is_ok();
        let default_hook = std::panic::take_hook();
        std::panic::set_hook(Box::new(move |info| {
            if verbose {
                default_hook(info);
            }
            let msg = if let Some(s) = info.payload().downcast_ref::<&str>() {
                s.to_string()
            } else if let Some(s) = info.payload().downcast_ref::<String>() {
                s.clone()
            } else {
                "panic".to_string()
            };
            let loc = info.location().map(|l| format!("{}:{}", l.file(), l.line())).unwrap_or_default();
            LAST_PANIC.with(|p| *p.borrow_mut() = Some(format!("{} @ {}", msg, loc)));
        }));
    });
}

pub fn take_panic() -> Option<String> {
    LAST_PANIC.with(|p| p.borrow_mut().take())
}

pub fn run_e1(ps: &ParamSpec, ls: &LandSpec, cfg: &OptCfg) -> Result<E1Run, String> {
    install_quiet_panic_hook();
    let land = Arc::new(Landscape::compile(ls, ps));
    let bounds: Arc<Vec<(f64, f64)>> = Arc::new((0..ps.n).map(|i| ps.bounds(i)).collect());
    let x0f: Vec<f64> = (0..ps.n).map(|i| ps.start(i)).collect();
    let x0: Vec<u64> = x0f.iter().map(|v| v.to_bits()).collect();
    let x0_score = land.eval(&x0f);
    if x0_score.is_none() {
        return Err("scenario error: start state is invalid in its own landscape".into());
    }
    let rec = Arc::new(Mutex::new(Recorder { prev: x0.clone(), obs: Vec::new(), scratch: Vec::new(), script_best: 0.0, script_calls: 0 }));
    let state = ScriptedState {
        params: x0f.iter().map(|v| SharedValue::new(*v)).collect(),
        bounds: bounds.clone(),
        land: land.clone(),
        rec: rec.clone(),
    };
    let builder = cfg.builder()?;
    let _ = take_panic();
    let result = std::panic::catch_unwind(std::panic::AssertUnwindSafe(|| {
        let opt: MCOptimiser = builder.build();
        opt.optimise_state(state)
    }));
    let mut run = E1Run {
        x0,
        x0_score,
        bounds,
        obs: Vec::new(),
        ret: None,
        ret_basis: None,
        ret_json: None,
        ret_score: None,
        panic: None,
        land,
    };
    match result {
        Err(_) => {
            run.panic = Some(take_panic().unwrap_or_else(|| "panic".into()));
            // a poisoned mutex only means the panic happened inside score(); data is still usable
            let r = match rec.lock() {
                Ok(g) => g,
                Err(p) => p.into_inner(),
            };
            run.obs = r.obs.clone();
        }
        Ok(ret) => {
            let n_in = rec.lock().unwrap().obs.len();
            let via_basis: Vec<u64> = ret.generate_basis().iter().map(|b| b.get_value().to_bits()).collect();
            run.ret_json = serde_json::to_string(&ret).ok();
            let sc = ret.score();
            let r = rec.lock().unwrap();
            run.obs = r.obs[..n_in].to_vec();
            run.ret = Some(r.prev.clone());
            run.ret_basis = Some(via_basis);
            run.ret_score = Some(sc);
        }
    }
    Ok(run)
}

impl E1Run {
    pub fn trace(&self) -> tracker::Trace {
        tracker::Trace::build(&self.x0, self.x0_score, &self.obs, self.ret.as_deref())
    }
    pub fn hash(&self) -> u64 {
        let mut h = Hasher64::new();
        for o in &self.obs {
            h.u64(o.diff.len() as u64);
            for (i, b) in &o.diff {
                h.u64(*i as u64);
                h.u64(*b);
            }
            h.opt_f64(o.score);
        }
        if let Some(r) = &self.ret {
            for b in r {
                h.u64(*b);
            }
        }
        h.u64(self.panic.is_some() as u64);
        h.finish()
    }
    pub fn head(&self, k: usize) -> J {
        let mut a = J::arr();
        for (i, o) in self.obs.iter().take(k).enumerate() {
            a.push(
                J::obj()
                    .set("call", J::uint(i as u64))
                    .set(
                        "changed",
                        J::Arr(
                            o.diff
                                .iter()
                                .take(4)
                                .map(|(i, b)| J::Arr(vec![J::uint(*i as u64), J::num(f64::from_bits(*b))]))
                                .collect(),
                        ),
                    )
                    .set("score", o.score.map(J::num).unwrap_or(J::Null)),
            );
        }
        a
    }
}

// ---------------------------------------------------------------------------------------------
// swarm generators shared by the E1 checks

pub fn gen_params(rng: &mut Rng, n_choices: &[(usize, u32)]) -> ParamSpec {
    let n = *rng.pick_weighted(n_choices);
    ParamSpec {
        n,
        salt: rng.next_u64() >> 12,
        range_mode: rng.pick(&["unit", "sym", "wide", "mixed"]).to_string(),
        start_mode: rng.pick(&["interior", "bounds", "mixed"]).to_string(),
        zero_width: *rng.pick(&[0.0, 0.0, 0.0, 0.2]),
        outside: 0.0,
    }
}

/// `allow_script`: decision-scripted (history-dependent) scores are only meaningful for checks
/// that reason about parameter vectors alone (C06, C19); checks that reason about scores of
/// states (C05, C07, C20) need the score to be a function of the state.
pub fn gen_land_general(rng: &mut Rng, allow_script: bool) -> LandSpec {
    let kind = if allow_script {
        rng.pick(&["peak", "plateau", "rugged", "rugged", "peak", "script"]).to_string()
    } else {
        rng.pick(&["peak", "plateau", "rugged", "rugged", "peak"]).to_string()
    };
    if kind == "script" {
        // quantum doubles as the scripted accept probability
        return LandSpec {
            kind,
            salt: rng.next_u64() >> 12,
            quantum: *rng.pick(&[0.05, 0.3, 0.5, 0.9]),
            amp: 1.0,
            ladder: vec![],
            cliff: None,
            holes: 0.0,
            nan_holes: false,
            abyss: None,
        };
    }
    LandSpec {
        kind,
        salt: rng.next_u64() >> 12,
        quantum: *rng.pick(&[0.5, 0.1, 0.01, 0.001]),
        // score differences from huge down to a few ulps of the score itself
        amp: *rng.pick(&[1.0, 1.0, 1e-3, 100.0, 1e-15, 1e-12, 1e12, 0.0]),
        ladder: vec![],
        cliff: *rng.pick(&[None, None, None, Some(0.3), Some(0.05), Some(0.0)]),
        holes: *rng.pick(&[0.0, 0.0, 0.1, 0.5, 0.9]),
        nan_holes: false,
        abyss: *rng.pick(&[None, None, None, None, None, None, None, Some(1e16), Some(1e20), Some(1e300)]),
    }
}
