//! Hypothesis tracker: explains the sequence of parameter vectors seen by `score()` as
//! "current state, then a move of at most one parameter, then accept or restore".
//!
//! Every hypothesis about the current state is within Hamming distance 1 of the latest
//! observation, so it is stored as `alt = Some((index, bits))` relative to it (or `None` if equal).

#[derive(Clone, Debug)]
pub struct Obs {
    /// coordinates whose bits differ from the previous observation (obs 0: from the input x0)
    pub diff: Vec<(u32, u64)>,
    pub score: Option<f64>,
}

#[derive(Clone, Debug)]
pub struct Hyp {
    /// the state equals the latest observation except (possibly) at one coordinate
    pub alt: Option<(u32, u64)>,
    /// score of that state (it was itself observed earlier, or is the input)
    pub score: Option<f64>,
    /// index of the observation this state was last seen as (usize::MAX = the input x0)
    pub seen_as: usize,
}

#[derive(Clone, Debug)]
pub struct Edge {
    pub parent: usize,
    pub child: usize,
    pub accepted: bool,
    /// the observation is identical to the parent state (bookkeeping call or zero-size move)
    pub null: bool,
    /// (coordinate, from bits, to bits) when not null
    pub mv: Option<(u32, u64, u64)>,
}

#[derive(Clone, Debug)]
pub struct Step {
    pub hyps: Vec<Hyp>,
    pub edges: Vec<Edge>,
    pub prop_score: Option<f64>,
}

pub struct Trace {
    /// steps[k] describes observation k; its edges start at steps[k-1].hyps (or the input for k = 0)
    pub steps: Vec<Step>,
    /// None = every observation explained
    pub unexplained_at: Option<usize>,
    pub saturated_at: Option<usize>,
    /// for the hypotheses of the last step: equal to the returned parameter vector?
    pub final_ok: Vec<bool>,
    pub max_hyps: usize,
}

pub struct EdgeCtx<'a> {
    pub k: usize,
    pub parent_score: Option<f64>,
    pub prop_score: Option<f64>,
    pub accepted: bool,
    pub null: bool,
    pub mv: Option<(u32, f64, f64)>,
    pub edge: &'a Edge,
}

const MAX_HYPS: usize = 512;

impl Trace {
    /// `x0`: input vector, `x0_score`: landscape at x0, `obs`: observations made inside the
    /// optimiser, `ret`: parameter vector of the returned object (None if the call panicked).
    pub fn build(x0: &[u64], x0_score: Option<f64>, obs: &[Obs], ret: Option<&[u64]>) -> Trace {
        let mut cur: Vec<u64> = x0.to_vec();
        let hyps0: Vec<Hyp> = vec![Hyp { alt: None, score: x0_score, seen_as: usize::MAX }];
        let mut steps: Vec<Step> = Vec::with_capacity(obs.len());
        let mut unexplained_at = None;
        let mut saturated_at = None;
        let mut max_hyps = 1;

        for (k, o) in obs.iter().enumerate() {
            let d = &o.diff;
            let hyps: &Vec<Hyp> = match steps.last() {
                Some(s) => &s.hyps,
                None => &hyps0,
            };
            let mut new_hyps: Vec<Hyp> = Vec::with_capacity(hyps.len() + 1);
            let mut edges: Vec<Edge> = Vec::new();
            // the "accepted" node: state == this observation
            new_hyps.push(Hyp { alt: None, score: o.score, seen_as: k });
            if d.len() <= 2 {
                for (pi, h) in hyps.iter().enumerate() {
                    // coordinates where the new observation differs from hypothesis h
                    let mut differing: Vec<(u32, u64, u64)> = Vec::new(); // (idx, from (h), to (obs))
                    let mut alt_in_d = false;
                    for &(idx, newb) in d.iter() {
                        let hval = match h.alt {
                            Some((ai, av)) if ai == idx => {
                                alt_in_d = true;
                                av
                            }
                            _ => cur[idx as usize],
                        };
                        if hval != newb {
                            differing.push((idx, hval, newb));
                        }
                    }
                    if let Some((ai, av)) = h.alt {
                        if !alt_in_d {
                            // observation keeps cur[ai], hypothesis has av != cur[ai]
                            differing.push((ai, av, cur[ai as usize]));
                        }
                    }
                    match differing.len() {
                        0 => {
                            edges.push(Edge { parent: pi, child: 0, accepted: true, null: true, mv: None });
                        }
                        1 => {
                            let (j, from, to) = differing[0];
                            edges.push(Edge { parent: pi, child: 0, accepted: true, null: false, mv: Some((j, from, to)) });
                            // rejected: state stays h, re-expressed relative to the new observation
                            let child = match new_hyps.iter().position(|x| x.alt == Some((j, from))) {
                                Some(c) => c,
                                None => {
                                    new_hyps.push(Hyp { alt: Some((j, from)), score: h.score, seen_as: h.seen_as });
                                    new_hyps.len() - 1
                                }
                            };
                            edges.push(Edge { parent: pi, child, accepted: false, null: false, mv: Some((j, from, to)) });
                        }
                        _ => {}
                    }
                }
            }
            for &(idx, newb) in d.iter() {
                cur[idx as usize] = newb;
            }
            if edges.is_empty() {
                unexplained_at = Some(k);
                steps.push(Step { hyps: new_hyps, edges, prop_score: o.score });
                break;
            }
            max_hyps = max_hyps.max(new_hyps.len());
            let too_many = new_hyps.len() > MAX_HYPS;
            steps.push(Step { hyps: new_hyps, edges, prop_score: o.score });
            if too_many {
                saturated_at = Some(k);
                break;
            }
        }

        let complete = unexplained_at.is_none() && saturated_at.is_none();
        let final_ok: Vec<bool> = match (ret, complete) {
            (Some(r), true) => {
                // cur == last observation (or x0 if there was none)
                let last_hyps: &Vec<Hyp> = match steps.last() {
                    Some(s) => &s.hyps,
                    None => &hyps0,
                };
                // differences between r and cur
                let mut rd: Vec<(usize, u64)> = Vec::new();
                for i in 0..cur.len() {
                    if r[i] != cur[i] {
                        rd.push((i, r[i]));
                        if rd.len() > 1 {
                            break;
                        }
                    }
                }
                last_hyps
                    .iter()
                    .map(|h| match (h.alt, rd.len()) {
                        (None, 0) => true,
                        (Some((ai, av)), 1) => rd[0].0 == ai as usize && rd[0].1 == av,
                        _ => false,
                    })
                    .collect()
            }
            _ => match steps.last() {
                Some(s) => vec![true; s.hyps.len()],
                None => vec![true; 1],
            },
        };
        Trace { steps, unexplained_at, saturated_at, final_ok, max_hyps }
    }

    pub fn complete(&self) -> bool {
        self.unexplained_at.is_none() && self.saturated_at.is_none()
    }

    fn ctx<'a>(&'a self, k: usize, e: &'a Edge, x0_score: Option<f64>) -> EdgeCtx<'a> {
        let parent_score = if k == 0 { x0_score } else { self.steps[k - 1].hyps[e.parent].score };
        EdgeCtx {
            k,
            parent_score,
            prop_score: self.steps[k].prop_score,
            accepted: e.accepted,
            null: e.null,
            mv: e.mv.map(|(j, f, t)| (j, f64::from_bits(f), f64::from_bits(t))),
            edge: e,
        }
    }

    /// Is there an explanation of the whole history (ending in the returned state) that uses only
    /// edges for which `ok` holds?  Err((k, why)) names the first observation at which every
    /// remaining explanation has been refuted (k == steps.len() means: at return).
    pub fn feasible<F: Fn(&EdgeCtx) -> Result<(), String>>(
        &self,
        x0_score: Option<f64>,
        ok: F,
    ) -> Result<(), (usize, String)> {
        let mut clean: Vec<bool> = vec![true];
        let mut last_refusal: Option<(usize, String)> = None;
        let n_steps = match (self.unexplained_at, self.saturated_at) {
            (Some(k), _) => k,
            (None, Some(k)) => k + 1,
            _ => self.steps.len(),
        };
        for k in 0..n_steps {
            let st = &self.steps[k];
            let mut next = vec![false; st.hyps.len()];
            let mut why: Option<String> = None;
            for e in &st.edges {
                if !clean[e.parent] {
                    continue;
                }
                match ok(&self.ctx(k, e, x0_score)) {
                    Ok(()) => next[e.child] = true,
                    Err(w) => {
                        if why.is_none() {
                            why = Some(w)
                        }
                    }
                }
            }
            if let Some(w) = &why {
                last_refusal = Some((k, w.clone()));
            }
            if !next.iter().any(|b| *b) {
                let w = match (&why, &last_refusal) {
                    (Some(w), _) => w.clone(),
                    (None, Some((k0, w))) => format!("{} (the only other explanation was refuted at call {})", w, k0),
                    _ => "no explanation".into(),
                };
                return Err((k, w));
            }
            clean = next;
        }
        if self.complete() {
            if !clean.iter().zip(self.final_ok.iter()).any(|(a, b)| *a && *b) {
                let w = match &last_refusal {
                    Some((k0, w)) => format!("{} (at call {}; the returned state is only reachable through it)", w, k0),
                    None => "returned state is not a state any violation-free explanation ends in".into(),
                };
                return Err((self.steps.len(), w));
            }
        }
        Ok(())
    }

    /// live[k][h]: hypothesis h after observation k lies on some explanation of the complete
    /// history that ends in the returned state.
    pub fn live(&self) -> Vec<Vec<bool>> {
        let n = self.steps.len();
        let mut live: Vec<Vec<bool>> = self.steps.iter().map(|s| vec![false; s.hyps.len()]).collect();
        if n == 0 || !self.complete() {
            return live;
        }
        live[n - 1] = self.final_ok.clone();
        for k in (1..n).rev() {
            let (a, b) = live.split_at_mut(k);
            let prev = &mut a[k - 1];
            let cur = &b[0];
            for e in &self.steps[k].edges {
                if cur[e.child] {
                    prev[e.parent] = true;
                }
            }
        }
        live
    }

    /// Score of the state held after observation k, if all live hypotheses agree on it
    /// (outer None = ambiguous; inner None = the held state has no score).
    pub fn score_after(&self) -> Vec<Option<Option<f64>>> {
        let live = self.live();
        let mut out = Vec::with_capacity(self.steps.len());
        for (k, st) in self.steps.iter().enumerate() {
            let mut val: Option<Option<u64>> = None;
            let mut ambiguous = !self.complete();
            for (h, hyp) in st.hyps.iter().enumerate() {
                if !live[k][h] {
                    continue;
                }
                let b = hyp.score.map(|x| x.to_bits());
                match val {
                    None => val = Some(b),
                    Some(v) if v == b => {}
                    _ => ambiguous = true,
                }
            }
            out.push(if ambiguous { None } else { val.map(|v| v.map(f64::from_bits)) });
        }
        out
    }

    /// For every observation k: the set of live (parent score, accepted) labels; a step is
    /// *resolved* if exactly one label is live.
    pub fn resolved_steps(&self, x0_score: Option<f64>) -> Vec<Option<ResolvedStep>> {
        let live = self.live();
        let n = self.steps.len();
        let mut out = vec![None; n];
        if !self.complete() {
            return out;
        }
        for k in 0..n {
            let st = &self.steps[k];
            let mut label: Option<ResolvedStep> = None;
            let mut ambiguous = false;
            for e in &st.edges {
                if !live[k][e.child] {
                    continue;
                }
                if k > 0 && !live[k - 1][e.parent] {
                    continue;
                }
                let ps = if k == 0 { x0_score } else { self.steps[k - 1].hyps[e.parent].score };
                let r = ResolvedStep {
                    parent_score: ps,
                    prop_score: st.prop_score,
                    accepted: e.accepted,
                    null: e.null,
                    coord: e.mv.map(|m| m.0),
                    after_score: if e.accepted { st.prop_score } else { ps },
                };
                match &label {
                    None => label = Some(r),
                    Some(l) => {
                        if !l.same(&r) {
                            ambiguous = true;
                        }
                    }
                }
            }
            if !ambiguous {
                out[k] = label;
            }
        }
        out
    }
}

#[derive(Clone, Copy, Debug)]
pub struct ResolvedStep {
    pub parent_score: Option<f64>,
    pub prop_score: Option<f64>,
    pub accepted: bool,
    pub null: bool,
    pub coord: Option<u32>,
    /// score of the state held after this step
    pub after_score: Option<f64>,
}

impl ResolvedStep {
    fn same(&self, o: &ResolvedStep) -> bool {
        let b = |x: Option<f64>| x.map(|v| v.to_bits());
        b(self.parent_score) == b(o.parent_score)
            && self.accepted == o.accepted
            && self.null == o.null
            && self.coord == o.coord
    }
}
