//! C01 — a scored hard packing has no overlap anywhere in the tiling.

use super::*;
use crate::with_state;
use sim_core::driver::{Check, RunOut, Tier, Violation};

pub struct C01;

struct Mon {
    violations: Vec<Violation>,
    checked: u64,
    scored_none: u64,
    convex: Option<bool>,
    max_image_index: i64,
}

fn classify(o: &geom::Overlap) -> &'static str {
    let far = o.n.abs().max(o.m.abs()) >= 2;
    match (o.polygon, o.proper, far) {
        (true, false, false) => "overlap/aligned",
        (true, false, true) => "overlap/aligned-far",
        (true, true, false) => "overlap/proper-near",
        (true, true, true) => "overlap/proper-far",
        (false, _, false) => "overlap/discs-near",
        (false, _, true) => "overlap/discs-far",
    }
}

impl Mon {
    fn check<S: Crystal>(&mut self, s: &S, score: Option<f64>, stage: usize, call: u64) {
        if score.is_none() {
            self.scored_none += 1;
            return;
        }
        if self.convex.is_none() {
            self.convex = Some(match s.geometry() {
                Geometry::Polygon(p) => geom::is_convex(&p),
                _ => true,
            });
        }
        if self.convex != Some(true) {
            return;
        }
        self.checked += 1;
        for o in geom::find_overlaps(s, 8) {
            self.max_image_index = self.max_image_index.max(o.n.abs().max(o.m.abs()));
            let class = classify(&o);
            if self.violations.iter().any(|v| v.class == class) {
                continue;
            }
            let c = s.cell();
            self.violations.push(
                Violation::new(
                    class,
                    call,
                    format!(
                        "chain op {} score() call {}: state scores {:?} but copy {} and copy {} translated by ({}, {}) cells overlap by depth {:.3e}; cell a={:.6} b={:.6} angle={:.6}",
                        stage, call, score, o.i, o.j, o.n, o.m, o.depth, c.a(), c.b(), c.angle()
                    ),
                )
                .sig("shape_kind", if o.polygon { "polygon" } else { "discs" })
                .sig("image", if o.n.abs().max(o.m.abs()) >= 2 { "far" } else { "near" }),
            );
        }
        // pigeonhole: density cannot exceed 1 (polygons and the single disc only; the trimer's
        // union area formula is C02's subject)
        let area = match s.geometry() {
            Geometry::Polygon(_) => Some(s.shape_area()),
            Geometry::Discs(d) if d.len() == 1 => Some(std::f64::consts::PI * d[0].1 * d[0].1),
            _ => None,
        };
        if let Some(a) = area {
            let c = s.cell();
            let cell_area = c.a() * c.b() * c.angle().sin();
            if a * s.cart().len() as f64 > cell_area * (1.0 + 1e-9) && !self.violations.iter().any(|v| v.class == "fraction>1") {
                self.violations.push(Violation::new("fraction>1", call, format!("chain op {} call {}: {} copies of area {:.6} in a cell of area {:.6} score {:?}", stage, call, s.cart().len(), a, cell_area, score)));
            }
        }
    }
}

impl<S: Crystal> Monitor<S> for Mon {
    fn on_score(&mut self, state: &S, score: Option<f64>, stage: usize, call: u64, _own: bool) {
        self.check(state, score, stage, call);
    }
    fn as_any(&mut self) -> &mut dyn std::any::Any {
        self
    }
}

fn exec<S: Crystal>(initial: S, sc: &Scenario) -> Result<RunOut, String> {
    if !S::HARD {
        return Err("C01 scenario with a soft potential".into());
    }
    let mut mon = Mon { violations: vec![], checked: 0, scored_none: 0, convex: None, max_image_index: 0 };
    mon.check(&initial, initial.score(), 0, 0);
    let (ev, mut mon_box) = run_chain(initial, &sc.chain, Box::new(mon), false)?;
    let mon: &mut Mon = mon_box.as_any().downcast_mut::<Mon>().ok_or("monitor type")?;
    let mut out = base_out(sc, &ev)?;
    // states reloaded from JSON must be realisable too
    for b in &ev.boundaries {
        if b.kind == "restart" || b.kind == "special" {
            mon.check(&b.after, b.after.score(), b.op, 0);
        }
    }
    out.count("probe.scored_states_checked", mon.checked);
    out.count("fault.F-invalid(proposals that scored None)", mon.scored_none);
    out.count("probe.skipped_nonconvex_shape", (mon.convex == Some(false)) as u64);
    for v in mon.violations.drain(..) {
        out.violate(v);
    }
    Ok(out)
}

pub fn gen_c01(rng: &mut Rng, tier: Tier) -> Scenario {
    use std::f64::consts::PI;
    let max_steps = match tier {
        Tier::Quick => 500,
        Tier::Thorough => 1000,
    };
    let mut sc = gen_scenario(rng, true, false, false, 4, max_steps);
    if rng.chance(0.08) {
        let at = rng.below(sc.chain.len() as u64 + 1) as usize;
        sc.chain.insert(at, Op::JsonEdit(rng.pick(&["x+1", "y-1", "angle-2pi", "angle+2pi"]).to_string()));
    }
    // many-sided regular polygons (the CLI accepts any --sides): rare because both the
    // implementation's edge-pair test and the oracle are quadratic in the number of sides
    let big = rng.below(1000);
    if big < 4 {
        let sides = if big < 1 { 1000 } else { *rng.pick(&[50usize, 200, 400]) };
        sc.shape = ShapeSpec::Polygon(sides);
        sc.group = rng.pick(&["p1", "p1", "p2", "p1g1", "p2gg"]).to_string();
        // bring the cell to the contact length first (circumradius 1: vertex-to-vertex contact at a
        // cell length of 2): writes that make the copies overlap by 1e-5 .. 1e-3 must be refused
        // by a correct overlap test and are then dropped
        let delta = *rng.pick(&[-1e-3, 1e-5, 5e-5, 1e-4, 1e-3]);
        let pre = Op::Special(vec![("cell.length".to_string(), 2.0 - delta), ("cell.ratio".to_string(), *rng.pick(&[1.0, 1.0 - 1e-4]))]);
        sc.chain = vec![pre, Op::Stage(OptCfg {
            steps: if sides >= 1000 { 30 } else { 120 },
            inner: 20,
            kt_start: 0.0,
            kt_finish: None,
            kt_ratio: Some(0.0),
            max_step: *rng.pick(&[0.1, 0.5]),
            convergence: None,
            seed: rng.below(1 << 32),
            order: 0,
            prior: None,
        })];
        return sc;
    }
    // "tight and nearly special": the cell is bisected down to contact (as the implementation sees
    // it), a cell or site parameter is moved a hair off where it stands (1e-7 .. 1e-3) - before or
    // after the bisection -, and a greedy stage with tiny moves follows.  Whatever conversion or
    // overlap test treats "nearly rectangular / nearly on the edge" as exactly so is then asked
    // about a packing with no slack.
    if rng.chance(0.12) {
        sc.shape = match rng.below(4) {
            0 | 1 => ShapeSpec::Circle,
            2 => ShapeSpec::Polygon(*rng.pick(&[3usize, 4, 6])),
            _ => ShapeSpec::Trimer { radius: 0.7, angle: 120.0, distance: 1.0 },
        };
        sc.group = rng.pick(&["p2", "p2", "p1", "p2", "p2gg", "p1g1", "p2mg"]).to_string();
        let gap = *rng.pick(&[1e-5, 1e-7, 1e-9, 1e-12]);
        let site: Vec<(String, f64)> = vec![
            ("site0.x".to_string(), *rng.pick(&[0.25, 0.25, 0.2, 0.3, 0.5, 0.0])),
            ("site0.y".to_string(), *rng.pick(&[0.25, 0.25, 0.2, 0.3, 0.5, 0.0])),
            ("site0.angle".to_string(), rng.range_f64(0.0, 6.28)),
        ];
        let delta = *rng.pick(&[1e-7, 3e-7, 5e-7, 9e-7, 2e-6, 1e-5, 1e-4, 5e-4, 1e-3]);
        let nudge = Op::Nudge(vec![match rng.below(6) {
            0..=3 => ("cell.angle".to_string(), -delta),
            4 => ("cell.ratio".to_string(), -delta),
            _ => (rng.pick(&["site0.x", "site0.y"]).to_string(), if rng.chance(0.5) { delta } else { -delta }),
        }]);
        let contact = Op::Contact("cell.length".to_string(), gap);
        sc.chain = vec![Op::Special(site)];
        if rng.chance(0.5) {
            sc.chain.push(nudge);
            sc.chain.push(contact);
        } else {
            sc.chain.push(contact.clone());
            sc.chain.push(nudge);
            sc.chain.push(contact);
        }
        sc.chain.push(Op::Stage(OptCfg {
            steps: *rng.pick(&[300u64, 500, 1000]).min(&max_steps),
            inner: 100,
            kt_start: 0.0,
            kt_finish: None,
            kt_ratio: None,
            max_step: *rng.pick(&[1e-6, 1e-5, 1e-4, 1e-3]),
            convergence: None,
            seed: rng.below(1 << 32),
            order: 0,
            prior: None,
        }));
        return sc;
    }
    // "clamp storm": zero-temperature stages with the largest step sizes drive site and cell
    // parameters onto their bounds (x = +-1/2, orientation 0 / 2pi, cell angle pi/6), which is how
    // copies displaced exactly along an edge direction arise
    if rng.chance(0.3) {
        sc.shape = ShapeSpec::Polygon(*rng.pick(&[3usize, 4, 6, 6, 6, 8, 12]));
        sc.group = rng.pick(&["p2", "p2", "p1g1", "p2mg", "p2gg", "p1m1", "p2mm"]).to_string();
        sc.chain.clear();
        for _ in 0..rng.range_u64(1, 2) {
            sc.chain.push(Op::Stage(OptCfg {
                steps: *rng.pick(&[300u64, 500, 1000]).min(&max_steps),
                inner: *rng.pick(&[100u64, 300, 1000]),
                kt_start: 0.0,
                kt_finish: None,
                kt_ratio: *rng.pick(&[Some(0.1), Some(0.0), None]),
                max_step: *rng.pick(&[1.0, 1.0, 0.5]),
                convergence: None,
                seed: rng.below(1 << 32),
                order: 0,
                prior: None,
            }));
        }
        return sc;
    }
    // bias towards the thin regions: elongated trimers, skewed / elongated cells, copies near
    // opposite faces, orientations at multiples of pi/n, each followed by a compression stage
    if rng.chance(0.5) {
        if rng.chance(0.6) {
            sc.shape = ShapeSpec::Trimer {
                radius: (rng.range_f64(0.3, 1.0) * 100.0).round() / 100.0,
                angle: *rng.pick(&[180.0, 170.0, 150.0, 120.0]),
                distance: (rng.range_f64(1.5, 2.5) * 100.0).round() / 100.0,
            };
        }
        let n_sides = match &sc.shape {
            ShapeSpec::Polygon(n) => Some(*n as f64),
            _ => None,
        };
        let mut w: Vec<(String, f64)> = vec![];
        w.push(("cell.ratio".into(), *rng.pick(&[0.5, 0.52, 0.55, 0.58, 0.6, 0.33, 0.36, 0.4, 0.1, 0.2, 0.25, 0.3])));
        w.push(("cell.angle".into(), *rng.pick(&[PI / 2.0 - 0.2, PI / 2.0 - 0.19, PI / 2.0 - 0.5, PI / 2.0 - 0.49, PI / 6.0, PI / 5.0, PI / 4.0, PI / 3.0])));
        for c in ["site0.x", "site0.y"] {
            if rng.chance(0.7) {
                let s = if rng.chance(0.5) { 1.0 } else { -1.0 };
                w.push((c.into(), s * (0.5 - *rng.pick(&[0.0, 0.01, 0.05, 0.1]))));
            }
        }
        if let Some(n) = n_sides {
            if rng.chance(0.7) {
                w.push(("site0.angle".into(), *rng.pick(&[0.0, PI / n, 2.0 * PI / n, PI, 2.0 * PI, PI / 2.0])));
            }
        }
        // keep a random subset, in random order
        let mut keep = vec![];
        while !w.is_empty() {
            let k = rng.below(w.len() as u64) as usize;
            let e = w.remove(k);
            if rng.chance(0.8) {
                keep.push(e);
            }
        }
        let compress = OptCfg {
            steps: *rng.pick(&[200u64, 500, 1000]).min(&max_steps),
            inner: *rng.pick(&[50u64, 100, 1000]),
            kt_start: 0.0,
            kt_finish: None,
            kt_ratio: Some(0.0),
            max_step: *rng.pick(&[0.01, 0.1, 0.5, 1.0]),
            convergence: None,
            seed: rng.below(1 << 32),
            order: 0,
            prior: None,
        };
        let at = rng.below(sc.chain.len() as u64 + 1) as usize;
        sc.chain.insert(at, Op::Stage(compress));
        sc.chain.insert(at, Op::Special(keep));
    }
    sc
}

impl Check for C01 {
    fn id(&self) -> &'static str {
        "C01"
    }
    fn rule(&self) -> String {
        "run i: hard shapes only (regular polygons 3..12, circle, trimers incl. elongated ones with distance up to 2.5) x 7 groups x chains of optimisation stages; half of the runs inject special-position writes at the edges of the shell heuristic's bands (ratio 0.5..0.6, 0.33..0.4, 0.1..0.3; angle pi/2-0.2, pi/2-0.5, pi/6..pi/3; copies near opposite faces; orientations at multiples of pi/n) followed by a kt=0 compression stage; all from splitmix(VERIF_SEED,'C01',i). Every score() call that returns Some is checked by an exhaustive-lattice exact-geometry oracle (SAT depth / disc distance > 1e-9). Non-trivial: some stage moved a parameter or a clamp/special/restart fired. Distinct: hash of all boundary states.".into()
    }
    fn runs(&self, tier: Tier) -> u64 {
        match tier {
            Tier::Quick => 20_000,
            Tier::Thorough => 200_000,
        }
    }
    fn generate(&self, rng: &mut Rng, tier: Tier, _i: u64) -> J {
        gen_c01(rng, tier).to_json()
    }
    fn execute(&self, j: &J) -> Result<RunOut, String> {
        let sc = Scenario::from_json(j)?;
        with_state!(&sc, exec, &sc)
    }
    fn shrink(&self, j: &J) -> Vec<J> {
        Scenario::from_json(j).map(|s| shrink_scenario(&s).iter().filter(|x| !x.lj).map(|x| x.to_json()).collect()).unwrap_or_default()
    }
    fn components_real(&self) -> Vec<&'static str> {
        REAL.to_vec()
    }
    fn components_stub(&self) -> Vec<&'static str> {
        STUB.to_vec()
    }
    fn assumptions(&self) -> Vec<String> {
        vec![
            "placements are the state's own cartesian_positions(); lattice vectors are recomputed from a, b, angle".into(),
            "the oracle's own geometry (separating-axis depth for convex polygons, centre distance for discs) is trusted; only convex polygons are generated".into(),
            "touching tolerance 1e-9 as in the property text".into(),
        ]
    }
    fn expected_probes(&self) -> Vec<&'static str> {
        vec!["probe.scored_states_checked", "fault.F-special(kept)", "fault.F-invalid(proposals that scored None)", "probe.shape/trimer-hard", "probe.shape/polygon"]
    }
}
