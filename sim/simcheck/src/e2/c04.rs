//! C04 — every crystal has the symmetry of the requested group.

use super::*;
use crate::with_state;
use sim_core::driver::{Check, RunOut, Tier, Violation};

pub struct C04;

struct Mon {
    info: groups::GroupInfo,
    violations: Vec<Violation>,
    checked: u64,
    off_right_angle: u64,
}

impl Mon {
    fn check<S: Crystal>(&mut self, s: &S, stage: usize, call: u64) {
        self.checked += 1;
        if (s.cell().angle() - std::f64::consts::FRAC_PI_2).abs() > 1e-6 {
            self.off_right_angle += 1;
        }
        if let Err(f) = groups::check_symmetry(s, &self.info) {
            if !self.violations.iter().any(|v| v.class == f.class) {
                self.violations.push(Violation::new(f.class, call, format!("chain op {} score() call {}: {}", stage, call, f.detail)));
            }
        }
    }
}

impl<S: Crystal> Monitor<S> for Mon {
    fn on_score(&mut self, state: &S, _score: Option<f64>, stage: usize, call: u64, _own: bool) {
        self.check(state, stage, call);
    }
    fn as_any(&mut self) -> &mut dyn std::any::Any {
        self
    }
}

fn exec<S: Crystal>(initial: S, sc: &Scenario) -> Result<RunOut, String> {
    let info = groups::group_info(&sc.group).ok_or("unknown group")?;
    let mut mon = Mon { info, violations: vec![], checked: 0, off_right_angle: 0 };
    mon.check(&initial, 0, 0);
    let (ev, mut mon_box) = run_chain(initial, &sc.chain, Box::new(mon), false)?;
    let mon: &mut Mon = mon_box.as_any().downcast_mut::<Mon>().ok_or("monitor type")?;
    let mut out = base_out(sc, &ev)?;
    for b in &ev.boundaries {
        mon.check(&b.after, b.op, 0);
    }
    out.count("probe.states_checked_for_symmetry", mon.checked);
    out.count("probe.states_with_oblique_cell", mon.off_right_angle);
    out.count("probe.chiral_shape_runs", matches!(sc.shape, ShapeSpec::Radial(_)) as u64);
    for v in mon.violations.drain(..) {
        out.violate(v);
    }
    Ok(out)
}

impl Check for C04 {
    fn id(&self) -> &'static str {
        "C04"
    }
    fn rule(&self) -> String {
        "run i: group x shape (regular and scalene radial polygons - the latter make handedness observable -, circle, trimers) x potential (hard/LJ) x chain of 1..4 stages with special-position writes (x,y = +-1/2, orientation 2pi, ...), restarts and clone-and-discard; from splitmix(VERIF_SEED,'C04',i). At every score() call and every chain boundary the placed shapes are compared with their images under every operation of the harness's own table of the requested group, mapped to Cartesian space with the current cell; each operation must be orthogonal. Non-trivial: a stage moved a parameter or a clamp/special/restart fired. Distinct: hash of boundary states.".into()
    }
    fn runs(&self, tier: Tier) -> u64 {
        match tier {
            Tier::Quick => 10_000,
            Tier::Thorough => 200_000,
        }
    }
    fn generate(&self, rng: &mut Rng, tier: Tier, _i: u64) -> J {
        let max_steps = match tier {
            Tier::Quick => 500,
            Tier::Thorough => 1000,
        };
        let mut sc = gen_scenario(rng, false, false, true, 4, max_steps);
        if rng.chance(0.08) {
            let at = rng.below(sc.chain.len() as u64 + 1) as usize;
            sc.chain.insert(at, Op::JsonEdit(rng.pick(&["x+1", "y-1", "angle-2pi", "angle+2pi", "cell-obtuse"]).to_string()));
        }
        if !sc.lj && rng.chance(0.3) {
            // scalene radial polygon
            let n = rng.range_u64(3, 6) as usize;
            sc.shape = ShapeSpec::Radial((0..n).map(|k| 0.6 + 0.15 * k as f64 + (rng.below(50) as f64) / 1000.0).collect());
        }
        sc.to_json()
    }
    fn execute(&self, j: &J) -> Result<RunOut, String> {
        let sc = Scenario::from_json(j)?;
        with_state!(&sc, exec, &sc)
    }
    fn shrink(&self, j: &J) -> Vec<J> {
        // the group is part of the question: keep it
        Scenario::from_json(j)
            .map(|s| shrink_scenario(&s).iter().filter(|x| x.group == s.group).map(|x| x.to_json()).collect())
            .unwrap_or_default()
    }
    fn components_real(&self) -> Vec<&'static str> {
        REAL.to_vec()
    }
    fn components_stub(&self) -> Vec<&'static str> {
        STUB.to_vec()
    }
    fn assumptions(&self) -> Vec<String> {
        vec![
            "the groups' general positions (standard setting, International Tables Vol. A) are tabulated inside the harness, independently of src/wallpaper.rs".into(),
            "sets of placed points are compared (vertices / disc centres with radii), so a shape's own symmetry cannot cause an alarm; tolerance 4e-9*(1+cell size), orthogonality 1e-9".into(),
            "for one fixed state this is a pure function; what the simulation contributes is the set of states (drift, clamps, special positions, restarts)".into(),
        ]
    }
    fn expected_probes(&self) -> Vec<&'static str> {
        vec!["probe.states_with_oblique_cell", "probe.chiral_shape_runs", "fault.F-special(kept)", "fault.F-restart", "probe.group/p1g1", "probe.group/p2mg"]
    }
}
