//! C04 — every crystal has the symmetry of the requested group.

use super::*;
use crate::with_state;
use sim_core::driver::{Check, RunOut, Tier, Violation};

pub struct C04;

struct Mon {
    info: groups::GroupInfo,
    violations: Vec<Violation>,
    checked: u64,
    off_right_angle: u64,
}

impl Mon {
    fn check<S: Crystal>(&mut self, s: &S, stage: usize, call: u64) {
        self.checked += 1;
        if (s.cell().angle() - std::f64::consts::FRAC_PI_2).abs() > 1e-6 {
            self.off_right_angle += 1;
        }
        if let Err(f) = groups::check_symmetry(s, &self.info) {
            if !self.violations.iter().any(|v| v.class == f.class) {
                self.violations.push(Violation::new(f.class, call, format!("chain op {} score() call {}: {}", stage, call, f.detail)));
            }
        }
    }
}

impl<S: Crystal> Monitor<S> for Mon {
    fn on_score(&mut self, state: &S, _score: Option<f64>, stage: usize, call: u64, _own: bool) {
        self.check(state, stage, call);
    }
    fn as_any(&mut self) -> &mut dyn std::any::Any {
        self
    }
}

fn exec<S: Crystal>(initial: S, sc: &Scenario) -> Result<RunOut, String> {
    let info = groups::group_info(&sc.group).ok_or("unknown group")?;
    let mut mon = Mon { info, violations: vec![], checked: 0, off_right_angle: 0 };
    mon.check(&initial, 0, 0);
    let (ev, mut mon_box) = run_chain(initial, &sc.chain, Box::new(mon), false)?;
    let mon: &mut Mon = mon_box.as_any().downcast_mut::<Mon>().ok_or("monitor type")?;
    let mut out = base_out(sc, &ev)?;
    for b in &ev.boundaries {
        mon.check(&b.after, b.op, 0);
    }
    out.count("probe.states_checked_for_symmetry", mon.checked);
    out.count("probe.states_with_oblique_cell", mon.off_right_angle);
    out.count("probe.chiral_shape_runs", matches!(sc.shape, ShapeSpec::Radial(_)) as u64);
    for v in mon.violations.drain(..) {
        out.violate(v);
    }
    Ok(out)
}

// ---------------------------------------------------------------------------------------------
// CLI part: the structure the shipped binary writes, against the group that was asked for

fn check_written<S: Crystal + serde::de::DeserializeOwned>(bytes: &[u8], group: &str, out: &mut RunOut) -> Result<(), String> {
    let st: S = match serde_json::from_slice(bytes) {
        Ok(s) => s,
        Err(e) => {
            out.violate(Violation::new("written-structure-unloadable", 0, format!("the JSON written by the tool does not load as the state type of the requested shape and potential: {}", e)));
            return Ok(());
        }
    };
    let info = groups::group_info(group).ok_or("unknown group")?;
    out.count("probe.states_checked_for_symmetry", 1);
    if let Err(f) = groups::check_symmetry(&st, &info) {
        out.violate(Violation::new(f.class, 0, format!("structure written by the command line tool for group {}: {}", group, f.detail)));
    }
    Ok(())
}

fn gen_cli(rng: &mut Rng) -> J {
    use sim_core::cliproc;
    let mut sc = cliproc::gen_valid(rng);
    sc.convergence = None;
    sc.fault = rng.pick(&["none", "none", "stale-output", "start-config-other-group", "start-config-other-group"]).to_string();
    sc.to_json().set("mode", J::str("cli-symmetry"))
}

fn exec_cli(j: &J) -> Result<RunOut, String> {
    use sim_core::cliproc::{self, CliScenario};
    let sc = CliScenario::from_json(j)?;
    let r = cliproc::run_cli(&sc)?;
    let mut out = RunOut::default();
    out.hash = r.hash();
    out.sim_steps = 1;
    out.nontrivial = true;
    out.sample = Some(r.sample());
    out.count("probe.cli_runs", 1);
    out.count(&format!("probe.group/{}", sc.group), 1);
    out.count("fault.F-args(start configuration of another group supplied)", (sc.fault == "start-config-other-group") as u64);
    out.count("fault.F-stale(output files existed before the run)", (sc.fault == "stale-output") as u64);
    if r.code != Some(0) {
        // whether a valid invocation may fail is C20's question, not this one's
        out.count("probe.cli_exit_nonzero", 1);
        return Ok(out);
    }
    let bytes = match &r.json {
        Some(b) => b.clone(),
        None => return Ok(out),
    };
    let lj = sc.potential.as_deref() == Some("LJ");
    match (sc.shape.as_str(), lj) {
        ("polygon", _) => check_written::<packing::PackedState<LineShape>>(&bytes, &sc.group, &mut out)?,
        (_, false) => check_written::<packing::PackedState<MolecularShape2>>(&bytes, &sc.group, &mut out)?,
        (_, true) => check_written::<packing::PotentialState<LJShape2>>(&bytes, &sc.group, &mut out)?,
    }
    Ok(out)
}

fn is_cli(j: &J) -> bool {
    j.get("mode").and_then(|m| m.as_str()) == Some("cli-symmetry")
}

impl Check for C04 {
    fn id(&self) -> &'static str {
        "C04"
    }
    fn rule(&self) -> String {
        "run i: group x shape (regular and scalene radial polygons - the latter make handedness observable -, circle, trimers) x potential (hard/LJ) x chain of 1..4 stages with special-position writes (x,y = +-1/2, orientation 2pi, ...), restarts and clone-and-discard; from splitmix(VERIF_SEED,'C04',i). At every score() call and every chain boundary the placed shapes are compared with their images under every operation of the harness's own table of the requested group, mapped to Cartesian space with the current cell; each operation must be orthogonal. Every 50th run instead executes the shipped binary (valid group x shape x potential x replications x steps from the swarm; plain, with stale output files present, or handed a valid start configuration saved for ANOTHER group), loads the JSON it wrote and holds it to the table of the group named on the command line. Non-trivial: a stage moved a parameter or a clamp/special/restart fired; any process execution. Distinct: hash of boundary states (process: exit status, normalised stderr, output bytes).".into()
    }
    fn runs(&self, tier: Tier) -> u64 {
        match tier {
            Tier::Quick => 10_000,
            Tier::Thorough => 200_000,
        }
    }
    fn generate(&self, rng: &mut Rng, tier: Tier, i: u64) -> J {
        // every 50th run asks the question of the file the shipped binary writes
        if i % 50 == 49 {
            return gen_cli(rng);
        }
        let max_steps = match tier {
            Tier::Quick => 500,
            Tier::Thorough => 1000,
        };
        let mut sc = gen_scenario(rng, false, false, true, 4, max_steps);
        if rng.chance(0.08) {
            let at = rng.below(sc.chain.len() as u64 + 1) as usize;
            sc.chain.insert(at, Op::JsonEdit(rng.pick(&["x+1", "y-1", "angle-2pi", "angle+2pi", "cell-obtuse"]).to_string()));
        }
        if !sc.lj && rng.chance(0.3) {
            // scalene radial polygon
            let n = rng.range_u64(3, 6) as usize;
            sc.shape = ShapeSpec::Radial((0..n).map(|k| 0.6 + 0.15 * k as f64 + (rng.below(50) as f64) / 1000.0).collect());
        }
        sc.to_json()
    }
    fn execute(&self, j: &J) -> Result<RunOut, String> {
        if is_cli(j) {
            return exec_cli(j);
        }
        let sc = Scenario::from_json(j)?;
        with_state!(&sc, exec, &sc)
    }
    fn shrink(&self, j: &J) -> Vec<J> {
        if is_cli(j) {
            return crate::e4::shrink_c20_e4(j).into_iter().filter(|x| x.get("group") == j.get("group") && x.get("fault") == j.get("fault")).map(|x| x.set("mode", J::str("cli-symmetry"))).collect();
        }
        // the group is part of the question: keep it
        Scenario::from_json(j)
            .map(|s| shrink_scenario(&s).iter().filter(|x| x.group == s.group).map(|x| x.to_json()).collect())
            .unwrap_or_default()
    }
    fn components_real(&self) -> Vec<&'static str> {
        let mut v = REAL.to_vec();
        v.extend_from_slice(crate::e4::REAL);
        v
    }
    fn components_stub(&self) -> Vec<&'static str> {
        STUB.to_vec()
    }
    fn assumptions(&self) -> Vec<String> {
        vec![
            "CLI part: the written JSON is loaded with the library's own Deserialize into the state type of the requested shape and potential and is then held to the requested group's table; a run that exits non-zero is left to C20".into(),
            "the groups' general positions (standard setting, International Tables Vol. A) are tabulated inside the harness, independently of src/wallpaper.rs".into(),
            "sets of placed points are compared (vertices / disc centres with radii), so a shape's own symmetry cannot cause an alarm; tolerance 4e-9*(1+cell size), orthogonality 1e-9".into(),
            "for one fixed state this is a pure function; what the simulation contributes is the set of states (drift, clamps, special positions, restarts)".into(),
        ]
    }
    fn expected_probes(&self) -> Vec<&'static str> {
        vec!["probe.cli_runs", "fault.F-args(start configuration of another group supplied)", "probe.states_with_oblique_cell", "probe.chiral_shape_runs", "fault.F-special(kept)", "fault.F-restart", "probe.group/p1g1", "probe.group/p2mg"]
    }
}
