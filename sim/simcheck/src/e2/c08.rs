//! C08 — parameters stay in range, the cell stays in its family, chained stages stay valid.

use super::*;
use crate::with_state;
use sim_core::driver::{Check, RunOut, Tier, Violation};
use std::f64::consts::PI;

pub struct C08;

struct Mon {
    group_family: &'static str,
    names: Vec<String>,
    len_max: f64,
    ratio_max: f64,
    angle0: u64,
    violations: Vec<Violation>,
    checked: u64,
    err: Option<String>,
}

/// declared range of a parameter, widened by 1e-12 relative so that an implementation which
/// writes the same bound in another way (pi/6 vs 30 degrees) is not reported
fn range_of(name: &str, len_max: f64, ratio_max: f64) -> Option<(f64, f64)> {
    range_exact(name, len_max, ratio_max).map(|(lo, hi)| (lo - 1e-12 * lo.abs().max(1.0), hi + 1e-12 * hi.abs().max(1.0)))
}

fn range_exact(name: &str, len_max: f64, ratio_max: f64) -> Option<(f64, f64)> {
    match name {
        "cell.length" => Some((0.01, len_max)),
        "cell.ratio" => Some((0.1, ratio_max)),
        "cell.angle" => Some((PI / 6.0, PI / 2.0)),
        n if n.ends_with(".x") || n.ends_with(".y") => Some((-0.5, 0.5)),
        n if n.ends_with(".angle") => Some((0.0, 2.0 * PI)),
        _ => None,
    }
}

impl Mon {
    fn add(&mut self, v: Violation) {
        if !self.violations.iter().any(|x| x.class == v.class) {
            self.violations.push(v);
        }
    }
    fn check_state<S: Crystal>(&mut self, s: &S, stage: usize, call: u64, what: &str) {
        self.checked += 1;
        let basis = s.generate_basis();
        if basis.len() != self.names.len() {
            self.add(Violation::new("basis-changed-size", call, format!("stage {}: number of optimisable parameters changed during a stage", stage)));
            return;
        }
        let names = self.names.clone();
        for (b, name) in basis.iter().zip(names.iter()) {
            let v = b.get_value();
            if let Some((lo, hi)) = range_of(name, self.len_max, self.ratio_max) {
                if !(v >= lo && v <= hi) {
                    self.add(
                        Violation::new(
                            "parameter-out-of-range",
                            call,
                            format!("stage {} {}: {} = {:e} outside its declared range [{:e}, {:e}]", stage, what, name, v, lo, hi),
                        )
                        .sig("param", name.clone()),
                    );
                }
            }
        }
        let ang = s.cell().angle();
        if self.group_family != "Monoclinic" && ang.to_bits() != self.angle0 {
            self.add(Violation::new(
                "cell-left-family",
                call,
                format!("stage {} {}: cell angle of a rectangular-family group changed from {:e} to {:e}", stage, what, f64::from_bits(self.angle0), ang),
            ));
        }
        if self.group_family == "Monoclinic" && !(ang >= PI / 6.0 - 1e-12 && ang <= PI / 2.0 + 1e-12) {
            self.add(Violation::new("parameter-out-of-range", call, format!("stage {} {}: oblique cell angle {:e} outside [pi/6, pi/2]", stage, what, ang)).sig("param", "cell.angle"));
        }
        let a = s.cell().a();
        if !(a >= 0.01 - 1e-14 && a <= self.len_max * (1.0 + 1e-12)) {
            self.add(Violation::new("parameter-out-of-range", call, format!("stage {} {}: cell length {:e} outside [0.01, {:e}]", stage, what, a, self.len_max)).sig("param", "cell.length"));
        }
    }
}

impl<S: Crystal> Monitor<S> for Mon {
    fn on_stage_start(&mut self, state: &S, stage: usize, _cfg: &OptCfg) {
        match basis_names(state) {
            Ok(n) => self.names = n,
            Err(e) => {
                self.err = Some(e);
                return;
            }
        }
        if self.group_family != "Monoclinic" && self.names.iter().any(|n| n == "cell.angle") {
            self.add(Violation::new("cell-left-family", 0, format!("stage {}: the cell angle of a rectangular-family group is offered to the optimiser as a free parameter", stage)));
        }
        match named_values(state) {
            Ok((_, vals)) => {
                for (n, v) in vals {
                    if n == "cell.length" {
                        self.len_max = v;
                    }
                    if n == "cell.ratio" {
                        self.ratio_max = v;
                    }
                }
            }
            Err(e) => self.err = Some(e),
        }
    }
    fn on_score(&mut self, state: &S, _score: Option<f64>, stage: usize, call: u64, own: bool) {
        if self.err.is_some() || own {
            return;
        }
        self.check_state(state, stage, call, "proposal/state at a score() call");
    }
    fn as_any(&mut self) -> &mut dyn std::any::Any {
        self
    }
}

fn exec<S: Crystal>(initial: S, sc: &Scenario) -> Result<RunOut, String> {
    let info = groups::group_info(&sc.group).ok_or("unknown group")?;
    let (j0, vals0) = named_values(&initial)?;
    let get = |vals: &Vec<(String, f64)>, n: &str| vals.iter().find(|x| x.0 == n).map(|x| x.1);
    let len0 = get(&vals0, "cell.length").ok_or("no length")?;
    let ratio0 = get(&vals0, "cell.ratio").ok_or("no ratio")?;
    let mut viol: Vec<Violation> = vec![];
    // initial-state clause
    let s0 = initial.score();
    match s0 {
        Some(x) if x.is_finite() && (!S::HARD || x > 0.0) => {}
        other => viol.push(Violation::new("initial-state-invalid", 0, format!("from_group({}, {:?}) starts with score {:?}", sc.group, sc.shape, other))),
    }
    for (n, v) in &vals0 {
        if let Some((lo, hi)) = range_of(n, len0, ratio0) {
            if !(*v >= lo && *v <= hi) {
                viol.push(Violation::new("initial-state-invalid", 0, format!("initial {} = {:e} outside [{:e}, {:e}]", n, v, lo, hi)));
            }
        }
    }
    let fam = |j: &J, p: &[&str]| j.path(p).and_then(|x| x.as_str()).map(|s| s.to_string());
    if fam(&j0, &["wallpaper", "family"]).as_deref() != Some(info.family) || fam(&j0, &["cell", "family"]).as_deref() != Some(info.family) {
        viol.push(Violation::new(
            "wrong-family",
            0,
            format!(
                "group {} belongs to the {} family but the state records wallpaper.family = {:?}, cell.family = {:?}",
                sc.group, info.family, fam(&j0, &["wallpaper", "family"]), fam(&j0, &["cell", "family"])
            ),
        ));
    }
    let angle0_bits = initial.cell().angle().to_bits();
    let mon = Mon {
        group_family: info.family,
        names: vec![],
        len_max: len0,
        ratio_max: ratio0,
        angle0: initial.cell().angle().to_bits(),
        violations: vec![],
        checked: 0,
        err: None,
    };
    let (ev, mut mon_box) = run_chain(initial, &sc.chain, Box::new(mon), false)?;
    let mon: &mut Mon = mon_box.as_any().downcast_mut::<Mon>().ok_or("monitor type")?;
    if let Some(e) = &mon.err {
        return Err(e.clone());
    }
    let mut out = base_out(sc, &ev)?;
    out.count("probe.states_checked_in_range", mon.checked);
    for v in mon.violations.drain(..) {
        viol.push(v);
    }
    // stage boundaries: full read-out through the serialised state
    let mut len_prev = len0;
    let mut ratio_prev = ratio0;
    for b in &ev.boundaries {
        let (j, vals) = named_values(&b.after)?;
        let (_, vals_before) = named_values(&b.before)?;
        let lb = get(&vals_before, "cell.length").unwrap_or(len_prev);
        let rb = get(&vals_before, "cell.ratio").unwrap_or(ratio_prev);
        if b.kind == "stage" || b.kind == "special" {
            for (n, v) in &vals {
                if let Some((lo, hi)) = range_of(n, lb.min(len0), rb.min(ratio0)) {
                    if !(*v >= lo && *v <= hi) {
                        viol.push(
                            Violation::new(
                                "parameter-out-of-range",
                                b.op as u64,
                                format!("after chain op {} ({}): {} = {:e} outside [{:e}, {:e}] (bounds from the start of that stage)", b.op, b.kind, n, v, lo, hi),
                            )
                            .sig("param", n.clone()),
                        );
                    }
                }
            }
            let ang = get(&vals, "cell.angle").unwrap_or(f64::NAN);
            if info.family != "Monoclinic" && ang.to_bits() != angle0_bits {
                viol.push(Violation::new("cell-left-family", b.op as u64, format!("after chain op {}: rectangular-family cell angle is {:e}", b.op, ang)));
            }
            if fam(&j, &["wallpaper", "family"]).as_deref() != Some(info.family) || fam(&j, &["cell", "family"]).as_deref() != Some(info.family) {
                viol.push(Violation::new("wrong-family", b.op as u64, format!("after chain op {}: recorded family changed", b.op)));
            }
        }
        if b.kind == "stage" {
            match b.after.score() {
                Some(x) if x.is_finite() => {}
                other => {
                    viol.push(
                        Violation::new(
                            "non-finite-score",
                            b.op as u64,
                            format!("stage (chain op {}) returned a state whose score is {:?} (input score {:?})", b.op, other, b.before.score()),
                        )
                        .sig("potential", if sc.lj { "LJ" } else { "Hard" }),
                    );
                }
            }
        }
        if b.kind == "clone_discard" && basis_bits(&b.before) != basis_bits(&b.after) {
            viol.push(Violation::new("clone-not-inert", b.op as u64, "optimising a clone changed the original state".to_string()));
        }
        len_prev = get(&vals, "cell.length").unwrap_or(len_prev);
        ratio_prev = get(&vals, "cell.ratio").unwrap_or(ratio_prev);
    }
    if let Some((k, msg)) = &ev.panic {
        // a stage that panics on a valid input state did not "return a state with a finite, defined score"
        if msg.starts_with(super::NONFINITE_PARAM) {
            viol.push(Violation::new("parameter-not-finite", *k as u64, format!("chain op {}: a state reached during the stage holds a parameter that is not a finite number ({})", k, msg)));
        } else {
            viol.push(Violation::new("stage-panicked", *k as u64, format!("chain op {}: optimise_state panicked: {}", k, msg)));
        }
    }
    // A shape so small that the cell built by from_group is shorter than the fixed lower bound 0.01
    // of the length range: the cause is recorded in the signature of what follows from it
    let tiny = len0 < 0.01;
    out.count("probe.initial_cell_below_fixed_minimum", tiny as u64);
    for v in viol {
        let about_length = v.signature.iter().any(|(k, x)| k == "param" && x == "cell.length") || v.detail.contains("cell.length") || v.detail.contains("cell length");
        if tiny && about_length && (v.class == "initial-state-invalid" || v.class == "parameter-out-of-range") {
            out.violate(v.sig("cause", "initial-cell-below-fixed-minimum"));
        } else {
            out.violate(v);
        }
    }
    Ok(out)
}

impl Check for C08 {
    fn id(&self) -> &'static str {
        "C08"
    }
    fn rule(&self) -> String {
        "run i: group (all 7, through the CLI's name lookup) x shape (regular polygons 3..12, radial polygons, circle, trimers of well-defined area) x potential (hard/LJ) x a chain of 1..4 optimisation stages with the configuration swarm and, between stages, special-position writes through the Basis API, JSON restarts and clone-and-discard; all from splitmix(VERIF_SEED,'C08',i). Ranges are checked at every score() call and through the serialised state at every chain boundary. Non-trivial: some stage moved a parameter, or a clamp / special write / restart fired. Distinct: hash of all boundary states.".into()
    }
    fn runs(&self, tier: Tier) -> u64 {
        match tier {
            Tier::Quick => 10_000,
            Tier::Thorough => 150_000,
        }
    }
    fn generate(&self, rng: &mut Rng, tier: Tier, _i: u64) -> J {
        let max_steps = match tier {
            Tier::Quick => 500,
            Tier::Thorough => 1000,
        };
        let mut sc = gen_scenario(rng, false, false, true, 4, max_steps);
        if rng.chance(0.01) {
            // "any shape of well-defined area": a polygon of circumradius ~1e-3
            let n = rng.range_u64(3, 6) as usize;
            sc.lj = false;
            sc.shape = ShapeSpec::Radial((0..n).map(|k| 1e-3 * (1.0 + 0.1 * (k % 2) as f64)).collect());
            sc.chain.retain(|op| !matches!(op, Op::Special(_)));
        }
        sc.to_json()
    }
    fn execute(&self, j: &J) -> Result<RunOut, String> {
        let sc = Scenario::from_json(j)?;
        with_state!(&sc, exec, &sc)
    }
    fn shrink(&self, j: &J) -> Vec<J> {
        Scenario::from_json(j).map(|s| shrink_scenario(&s).iter().map(|x| x.to_json()).collect()).unwrap_or_default()
    }
    fn components_real(&self) -> Vec<&'static str> {
        REAL.to_vec()
    }
    fn components_stub(&self) -> Vec<&'static str> {
        STUB.to_vec()
    }
    fn assumptions(&self) -> Vec<String> {
        vec![
            "ranges are the ones in the property text; the length and ratio upper bounds are the values at the start of each stage".into(),
            "which serialised parameter a basis entry drives is found by perturbing a clone through the public Basis API (no reliance on the order of generate_basis())".into(),
            "the crystal family of each group comes from the harness's independent table".into(),
        ]
    }
    fn expected_probes(&self) -> Vec<&'static str> {
        vec!["fault.F-restart", "fault.F-special(kept)", "fault.F-clamp(parameters on a bound at a stage boundary)", "probe.shape/trimer-lj", "probe.shape/polygon", "probe.group/p2gg"]
    }
}
