//! C11 — JSON round-trips (crash/restart through the only durable state) and the SVG shows the
//! same structure.

use super::*;
use crate::with_state;
use sim_core::driver::{Check, RunOut, Tier, Violation};

pub struct C11;

fn aff_bits(t: &[Transform2]) -> Vec<[u64; 6]> {
    t.iter()
        .map(|x| {
            let a = aff(x);
            [a[0][0].to_bits(), a[0][1].to_bits(), a[0][2].to_bits(), a[1][0].to_bits(), a[1][1].to_bits(), a[1][2].to_bits()]
        })
        .collect()
}

/// (a)-(c) for one crash point; returns the reloaded state
fn round_trip<S: Crystal>(s: &S, at: &str, step: u64, viol: &mut Vec<Violation>) -> Result<Option<S>, String> {
    let text = to_json_text(s)?;
    let back: S = match serde_json::from_str::<S>(&text) {
        Ok(b) => b,
        Err(e) => {
            viol.push(Violation::new("json-does-not-load", step, format!("{}: the state's own JSON cannot be read back: {}", at, e)));
            return Ok(None);
        }
    };
    let (sa, sb) = (s.score(), back.score());
    if sa.map(|x| x.to_bits()) != sb.map(|x| x.to_bits()) {
        viol.push(Violation::new(
            "roundtrip-score-differs",
            step,
            format!("{}: score {:?} before serialisation, {:?} after reading the JSON back", at, sa, sb),
        ));
    }
    if aff_bits(&s.cart()) != aff_bits(&back.cart()) || aff_bits(&s.rel()) != aff_bits(&back.rel()) {
        viol.push(Violation::new("roundtrip-placements-differ", step, format!("{}: placements are not bit-identical after a JSON round trip", at)));
    }
    let text2 = to_json_text(&back)?;
    if text2 != text {
        // name the first differing field
        let (_, a) = read_params_json(&text)?;
        let (_, b) = read_params_json(&text2)?;
        let d: Vec<String> = a
            .iter()
            .zip(b.iter())
            .filter(|(x, y)| x.1.to_bits() != y.1.to_bits())
            .map(|(x, y)| format!("{}: {:e} -> {:e}", x.0, x.1, y.1))
            .collect();
        viol.push(Violation::new(
            "roundtrip-reserialisation-differs",
            step,
            format!("{}: re-serialising the reloaded state gives different JSON ({})", at, if d.is_empty() { "non-parameter field".to_string() } else { d.join(", ") }),
        ));
    }
    Ok(Some(back))
}

/// every `<use ... href="#id" ... transform="matrix(a b c d e f)" .../>` of the document, grouped by
/// the element referred to (the tool is free to name and arrange its definitions as it likes)
pub fn svg_uses(svg: &str) -> Result<Vec<(String, Vec<[f64; 6]>)>, String> {
    let mut out: Vec<(String, Vec<[f64; 6]>)> = vec![];
    let mut rest = svg;
    while let Some(p) = rest.find("<use") {
        let tail = &rest[p..];
        let end = tail.find('>').ok_or("unterminated <use")?;
        let tag = &tail[..end];
        rest = &tail[end..];
        let attr = |name: &str| -> Option<&str> {
            // (attribute names are matched after a blank so that "href" does not match "xlink:href")
            let key = format!(" {}=\"", name);
            let s = tag.find(&key)? + key.len();
            let e = tag[s..].find('"')? + s;
            Some(&tag[s..e])
        };
        let href = match attr("href").or_else(|| attr("xlink:href")) {
            Some(h) => h.to_string(),
            None => continue,
        };
        let tr = match attr("transform") {
            Some(t) => t,
            None => continue,
        };
        let inner = tr.trim().strip_prefix("matrix(").and_then(|x| x.strip_suffix(')')).ok_or(format!("unrecognised transform {}", tr))?;
        let nums: Vec<f64> = inner
            .split(|c: char| c == ' ' || c == ',')
            .filter(|x| !x.is_empty())
            .map(|x| x.parse::<f64>().map_err(|_| format!("bad number {} in transform", x)))
            .collect::<Result<_, _>>()?;
        if nums.len() != 6 {
            return Err(format!("matrix with {} entries", nums.len()));
        }
        let m = [nums[0], nums[1], nums[2], nums[3], nums[4], nums[5]];
        match out.iter_mut().find(|g| g.0 == href) {
            Some(g) => g.1.push(m),
            None => out.push((href, vec![m])),
        }
    }
    Ok(out)
}

/// the first mismatch between one group of <use> elements and the expected placements
fn svg_group_mismatch(uses: &[[f64; 6]], expected: &[([f64; 6], bool)], tol: f64, carts: usize, at: &str, step: u64) -> Option<Violation> {
    if uses.len() != expected.len() {
        return Some(Violation::new(
            "svg-wrong-number-of-copies",
            step,
            format!("{}: the SVG places the shape {} times; {} copies x 9 (the cell and its 8 nearest images) = {} expected", at, uses.len(), carts, expected.len()),
        ));
    }
    let mut used = vec![false; uses.len()];
    for (e, base) in expected {
        let mut found = false;
        for (k, u) in uses.iter().enumerate() {
            if used[k] {
                continue;
            }
            let lin_ok = (0..4).all(|i| u[i].to_bits() == e[i].to_bits() || (u[i] == 0.0 && e[i] == 0.0));
            let tr_ok = if *base {
                (u[4].to_bits() == e[4].to_bits() || (u[4] == 0.0 && e[4] == 0.0)) && (u[5].to_bits() == e[5].to_bits() || (u[5] == 0.0 && e[5] == 0.0))
            } else {
                (u[4] - e[4]).abs() <= tol && (u[5] - e[5]).abs() <= tol
            };
            if lin_ok && tr_ok {
                used[k] = true;
                found = true;
                break;
            }
        }
        if !found {
            return Some(Violation::new(
                "svg-placement-missing",
                step,
                format!(
                    "{}: no <use> in the SVG has transform matrix({:e} {:e} {:e} {:e} {:e} {:e}) ({} of the state); e.g. first <use> is matrix({:?})",
                    at, e[0], e[1], e[2], e[3], e[4], e[5], if *base { "a Cartesian placement" } else { "a nearest lattice image" }, uses.first()
                ),
            ));
        }
    }
    None
}

fn check_svg<S: Crystal>(s: &S, at: &str, step: u64, viol: &mut Vec<Violation>) -> Result<(), String> {
    let mut buf: Vec<u8> = vec![];
    svg::write(&mut buf, &s.as_svg()).map_err(|e| format!("svg::write: {}", e))?;
    let text = String::from_utf8(buf).map_err(|e| e.to_string())?;
    // a document that positions things through transforms on groups is beyond this reader: it
    // decides nothing about it (and says so in the evidence) rather than guessing
    if text.contains("<g") && text.split("<g").skip(1).any(|t| t.split('>').next().map(|tag| tag.contains(" transform=")).unwrap_or(false)) {
        SVG_NOT_UNDERSTOOD.with(|c| c.set(c.get() + 1));
        return Ok(());
    }
    let groups = match svg_uses(&text) {
        Ok(u) => u,
        Err(_) => {
            SVG_NOT_UNDERSTOOD.with(|c| c.set(c.get() + 1));
            return Ok(());
        }
    };
    let (va, vb) = geom::lattice(s);
    let size = va[0].abs().max(vb[0].abs()).max(vb[1].abs()).max(1.0);
    let tol = 1e-9 * (1.0 + size);
    let carts: Vec<Aff> = s.cart().iter().map(aff).collect();
    // expected: (a b c d e f) = (m00 m10 m01 m11 m02 m12)
    let mut expected: Vec<([f64; 6], bool)> = vec![];
    for t in &carts {
        for n in -1..=1i64 {
            for m in -1..=1i64 {
                let sx = n as f64 * va[0] + m as f64 * vb[0];
                let sy = m as f64 * vb[1];
                expected.push(([t[0][0], t[1][0], t[0][1], t[1][1], t[0][2] + sx, t[1][2] + sy], n == 0 && m == 0));
            }
        }
    }
    if groups.is_empty() {
        viol.push(Violation::new("svg-placement-missing", step, format!("{}: the SVG contains no <use> element with a transform: the shape is placed nowhere", at)));
        return Ok(());
    }
    // some group of <use> elements (all referring to one definition) must be exactly the expected
    // placements; the one reported on failure is the group called "#mol" if there is one, else
    // the largest
    let mut first: Option<Violation> = None;
    let mut order: Vec<usize> = (0..groups.len()).collect();
    order.sort_by_key(|k| (groups[*k].0 != "#mol", std::cmp::Reverse(groups[*k].1.len())));
    for k in order {
        match svg_group_mismatch(&groups[k].1, &expected, tol, carts.len(), at, step) {
            None => return Ok(()),
            Some(v) => {
                if first.is_none() {
                    first = Some(v);
                }
            }
        }
    }
    if let Some(v) = first {
        viol.push(v);
    }
    Ok(())
}

std::thread_local! {
    /// SVG documents this reader could not interpret (evidence probe)
    pub static SVG_NOT_UNDERSTOOD: std::cell::Cell<u64> = std::cell::Cell::new(0);
}

struct Mon<S: Crystal> {
    every: u64,
    phase: u64,
    violations: Vec<Violation>,
    snapshots: u64,
    err: Option<String>,
    _p: std::marker::PhantomData<S>,
}

impl<S: Crystal> Monitor<S> for Mon<S> {
    fn on_score(&mut self, state: &S, _score: Option<f64>, stage: usize, call: u64, own: bool) {
        if own || self.err.is_some() || call % self.every != self.phase {
            return;
        }
        // mid-stage snapshot: a trial state (possibly invalid) must round-trip too
        self.snapshots += 1;
        let mut v = vec![];
        match round_trip(state, &format!("mid-stage snapshot (chain op {}, score() call {})", stage, call), call, &mut v) {
            Ok(_) => {}
            Err(e) => self.err = Some(e),
        }
        for x in v {
            if !self.violations.iter().any(|y| y.class == x.class) {
                self.violations.push(x);
            }
        }
    }
    fn as_any(&mut self) -> &mut dyn std::any::Any {
        self
    }
}

fn exec<S: Crystal>(initial: S, sc: &Scenario, every: u64, phase: u64, fork_at: usize) -> Result<RunOut, String> {
    let mon: Mon<S> = Mon { every, phase, violations: vec![], snapshots: 0, err: None, _p: std::marker::PhantomData };
    let mut viol: Vec<Violation> = vec![];
    // crash point 0: the freshly constructed state
    round_trip(&initial, "initial state", 0, &mut viol)?;
    check_svg(&initial, "initial state", 0, &mut viol)?;
    let (ev, mut mon_box) = run_chain(initial, &sc.chain, Box::new(mon), false)?;
    let mon: &mut Mon<S> = mon_box.as_any().downcast_mut::<Mon<S>>().ok_or("monitor type")?;
    if let Some(e) = &mon.err {
        return Err(e.clone());
    }
    let mut out = base_out(sc, &ev)?;
    out.count("probe.mid_stage_snapshots", mon.snapshots);
    viol.extend(mon.violations.drain(..));
    if let Some(e) = &ev.restart_error {
        viol.push(Violation::new("json-does-not-load", 0, format!("restart fault: {}", e)));
    }
    let mut crash_points = 0u64;
    let mut forks = 0u64;
    for (bi, b) in ev.boundaries.iter().enumerate() {
        if b.kind != "stage" && b.kind != "special" {
            continue;
        }
        crash_points += 1;
        let at = format!("after chain op {} ({})", b.op, b.kind);
        let back = round_trip(&b.after, &at, b.op as u64, &mut viol)?;
        check_svg(&b.after, &at, b.op as u64, &mut viol)?;
        // (d) restart equivalence at one seeded boundary: the rest of the chain from the reloaded
        // state and from the in-memory state must end in byte-identical JSON
        if bi == fork_at {
            if let Some(back) = back {
                let rest: Vec<Op> = sc.chain[b.op + 1..].iter().filter(|o| matches!(o, Op::Stage(_))).cloned().collect();
                if !rest.is_empty() {
                    forks += 1;
                    let (ea, _) = run_chain(b.after.clone(), &rest, Box::new(NoMonitor), false)?;
                    let (eb, _) = run_chain(back, &rest, Box::new(NoMonitor), false)?;
                    let fa = ea.boundaries.last().map(|x| to_json_text(&x.after)).transpose()?;
                    let fb = eb.boundaries.last().map(|x| to_json_text(&x.after)).transpose()?;
                    if fa != fb || ea.panic.is_some() != eb.panic.is_some() {
                        viol.push(Violation::new(
                            "restart-not-equivalent",
                            b.op as u64,
                            format!("continuing the remaining {} stage(s) from the reloaded JSON gives a different final structure than continuing in memory ({})", rest.len(), at),
                        ));
                    }
                }
            }
        }
    }
    out.count("probe.crash_points", crash_points + 1);
    out.count("probe.restart_equivalence_forks", forks);
    out.count("probe.svg_documents_checked", crash_points + 1);
    out.count("probe.svg_documents_not_understood(nothing decided)", SVG_NOT_UNDERSTOOD.with(|c| c.replace(0)));
    for v in viol {
        out.violate(v);
    }
    Ok(out)
}

impl Check for C11 {
    fn id(&self) -> &'static str {
        "C11"
    }
    fn rule(&self) -> String {
        "run i: group x shape x potential x chain of 1..4 stages (swarm as for C08, from splitmix(VERIF_SEED,'C11',i)); crash points = the constructed state, every stage / special-write boundary, and mid-stage snapshots at seeded score() calls (trial states included). At each: serialise, drop, deserialise, compare score bits, placements bit-for-bit, re-serialisation byte-for-byte; at one seeded boundary per run the remaining stages are continued from the reloaded and from the in-memory state and compared; the SVG written for each boundary state is parsed and its <use href=#mol> matrices compared with the Cartesian transforms and their 8 nearest images. Non-trivial: some stage moved a parameter, or a clamp/special/restart fired. Distinct: hash of all boundary states.".into()
    }
    fn runs(&self, tier: Tier) -> u64 {
        match tier {
            Tier::Quick => 6_000,
            Tier::Thorough => 120_000,
        }
    }
    fn generate(&self, rng: &mut Rng, tier: Tier, _i: u64) -> J {
        let max_steps = match tier {
            Tier::Quick => 500,
            Tier::Thorough => 1000,
        };
        let mut sc = gen_scenario(rng, false, false, true, 4, max_steps);
        if rng.chance(0.08) {
            let at = rng.below(sc.chain.len() as u64 + 1) as usize;
            sc.chain.insert(at, Op::JsonEdit(rng.pick(&["x+1", "y-1", "angle-2pi", "angle+2pi", "cell-obtuse"]).to_string()));
        }
        let every = *rng.pick(&[7u64, 31, 101]);
        sc.to_json()
            .set("snapshot_every", J::uint(every))
            .set("snapshot_phase", J::uint(rng.below(every)))
            .set("fork_at_boundary", J::uint(rng.below(3)))
    }
    fn execute(&self, j: &J) -> Result<RunOut, String> {
        let sc = Scenario::from_json(j)?;
        let every = j.get("snapshot_every").and_then(|x| x.as_u64()).unwrap_or(31).max(1);
        let phase = j.get("snapshot_phase").and_then(|x| x.as_u64()).unwrap_or(0) % every;
        let fork = j.get("fork_at_boundary").and_then(|x| x.as_u64()).unwrap_or(0) as usize;
        with_state!(&sc, exec, &sc, every, phase, fork)
    }
    fn shrink(&self, j: &J) -> Vec<J> {
        let keep = |s: J| -> J {
            let mut s = s;
            for k in ["snapshot_every", "snapshot_phase", "fork_at_boundary"] {
                if let Some(v) = j.get(k) {
                    s.put(k, v.clone());
                }
            }
            s
        };
        Scenario::from_json(j).map(|s| shrink_scenario(&s).iter().map(|x| keep(x.to_json())).collect()).unwrap_or_default()
    }
    fn components_real(&self) -> Vec<&'static str> {
        REAL.to_vec()
    }
    fn components_stub(&self) -> Vec<&'static str> {
        STUB.to_vec()
    }
    fn assumptions(&self) -> Vec<String> {
        vec![
            "serde_json is used exactly as /repo/Cargo.toml configures it (the harness adds no serde_json features; feature unification would otherwise mask a lossy float parser)".into(),
            "SVG: the linear part and the base translations are compared bit-for-bit after parsing the shortest-round-trip decimals; translations of the 8 lattice images are compared within 1e-9*(1+cell size) against T + nA + mB".into(),
            "colours, ids and the cell outline of the SVG are not part of the statement and are not checked; an unrecognisable document is a harness error (exit 2), not a violation".into(),
        ]
    }
    fn expected_probes(&self) -> Vec<&'static str> {
        vec!["probe.mid_stage_snapshots", "probe.restart_equivalence_forks", "probe.svg_documents_checked", "fault.F-restart", "fault.F-special(kept)"]
    }
}
