//! Exact-geometry overlap oracle over *all* lattice images (no shell heuristic).

use super::{aff, apply, Aff, Crystal, Geometry};

pub const TOL: f64 = 1e-9;

#[derive(Clone, Debug)]
pub struct Overlap {
    pub i: usize,
    pub j: usize,
    pub n: i64,
    pub m: i64,
    pub depth: f64,
    /// polygons only: is there a transversal (non-parallel, interior) edge crossing?
    pub proper: bool,
    pub polygon: bool,
}

fn placed_polygon(g: &[[f64; 2]], a: &Aff, shift: [f64; 2]) -> Vec<[f64; 2]> {
    g.iter()
        .map(|p| {
            let q = apply(a, *p);
            [q[0] + shift[0], q[1] + shift[1]]
        })
        .collect()
}

fn project(poly: &[[f64; 2]], ax: [f64; 2]) -> (f64, f64) {
    let mut lo = f64::INFINITY;
    let mut hi = f64::NEG_INFINITY;
    for p in poly {
        let d = p[0] * ax[0] + p[1] * ax[1];
        lo = lo.min(d);
        hi = hi.max(d);
    }
    (lo, hi)
}

/// separating-axis penetration depth of two convex polygons (<= 0: separated or touching)
pub fn sat_depth(p: &[[f64; 2]], q: &[[f64; 2]]) -> f64 {
    let mut depth = f64::INFINITY;
    for poly in [p, q] {
        let n = poly.len();
        for i in 0..n {
            let a = poly[i];
            let b = poly[(i + 1) % n];
            let e = [b[0] - a[0], b[1] - a[1]];
            let len = (e[0] * e[0] + e[1] * e[1]).sqrt();
            if len == 0.0 {
                continue;
            }
            let ax = [-e[1] / len, e[0] / len];
            let (l1, h1) = project(p, ax);
            let (l2, h2) = project(q, ax);
            let ov = h1.min(h2) - l1.max(l2);
            depth = depth.min(ov);
            if depth <= 0.0 {
                return depth;
            }
        }
    }
    depth
}

/// does any edge of p cross any edge of q transversally, at a point interior to both edges?
pub fn has_proper_crossing(p: &[[f64; 2]], q: &[[f64; 2]]) -> bool {
    let eps = 1e-9;
    for i in 0..p.len() {
        let a = p[i];
        let b = p[(i + 1) % p.len()];
        let r = [b[0] - a[0], b[1] - a[1]];
        for k in 0..q.len() {
            let c = q[k];
            let d = q[(k + 1) % q.len()];
            let s = [d[0] - c[0], d[1] - c[1]];
            let denom = r[0] * s[1] - r[1] * s[0];
            let scale = (r[0] * r[0] + r[1] * r[1]).sqrt() * (s[0] * s[0] + s[1] * s[1]).sqrt();
            if denom.abs() <= eps * scale {
                continue;
            }
            let ca = [c[0] - a[0], c[1] - a[1]];
            let t = (ca[0] * s[1] - ca[1] * s[0]) / denom;
            let u = (ca[0] * r[1] - ca[1] * r[0]) / denom;
            if t > eps && t < 1.0 - eps && u > eps && u < 1.0 - eps {
                return true;
            }
        }
    }
    false
}

pub fn is_convex(poly: &[[f64; 2]]) -> bool {
    let n = poly.len();
    let mut sign = 0.0f64;
    for i in 0..n {
        let a = poly[i];
        let b = poly[(i + 1) % n];
        let c = poly[(i + 2) % n];
        let cr = (b[0] - a[0]) * (c[1] - b[1]) - (b[1] - a[1]) * (c[0] - b[0]);
        if cr.abs() < 1e-12 {
            continue;
        }
        if sign == 0.0 {
            sign = cr.signum();
        } else if sign != cr.signum() {
            return false;
        }
    }
    true
}

/// lattice vectors recomputed from a, b, angle
pub fn lattice<S: Crystal>(s: &S) -> ([f64; 2], [f64; 2]) {
    let c = s.cell();
    let (a, b, t) = (c.a(), c.b(), c.angle());
    ([a, 0.0], [b * t.cos(), b * t.sin()])
}

/// All overlapping pairs (deepest first is not needed; the first few are enough), looking at every
/// lattice image whose centre is within 2R of the other copy's centre.
pub fn find_overlaps<S: Crystal>(s: &S, max_report: usize) -> Vec<Overlap> {
    let geom = s.geometry();
    let r = geom.enclosing_radius();
    let (va, vb) = lattice(s);
    let placements: Vec<Aff> = s.cart().iter().map(aff).collect();
    let mut out = vec![];
    let by = vb[1];
    if !(by > 0.0) || !(va[0] > 0.0) || !r.is_finite() {
        return out;
    }
    let reach = 2.0 * r + 1e-6;
    let polygon = matches!(geom, Geometry::Polygon(_));
    for i in 0..placements.len() {
        let ti = [placements[i][0][2], placements[i][1][2]];
        let pi_poly = match &geom {
            Geometry::Polygon(g) => Some(placed_polygon(g, &placements[i], [0.0, 0.0])),
            _ => None,
        };
        for j in 0..placements.len() {
            let tj = [placements[j][0][2], placements[j][1][2]];
            let d = [tj[0] - ti[0], tj[1] - ti[1]];
            let m_lo = ((-reach - d[1]) / by).ceil() as i64;
            let m_hi = ((reach - d[1]) / by).floor() as i64;
            for m in m_lo..=m_hi {
                let yy = d[1] + m as f64 * by;
                let half = (reach * reach - yy * yy).max(0.0).sqrt();
                let xb = d[0] + m as f64 * vb[0];
                let n_lo = ((-half - xb) / va[0]).ceil() as i64;
                let n_hi = ((half - xb) / va[0]).floor() as i64;
                for n in n_lo..=n_hi {
                    if i == j && n == 0 && m == 0 {
                        continue;
                    }
                    // each unordered pair once
                    if j < i || (j == i && (m < 0 || (m == 0 && n < 0))) {
                        continue;
                    }
                    let shift = [n as f64 * va[0] + m as f64 * vb[0], m as f64 * vb[1]];
                    match &geom {
                        Geometry::Polygon(g) => {
                            let q = placed_polygon(g, &placements[j], shift);
                            let p = pi_poly.as_ref().unwrap();
                            let depth = sat_depth(p, &q);
                            if depth > TOL {
                                let proper = has_proper_crossing(p, &q);
                                out.push(Overlap { i, j, n, m, depth, proper, polygon });
                            }
                        }
                        Geometry::Discs(ds) => {
                            let mut worst = f64::NEG_INFINITY;
                            for (c1, r1) in ds {
                                let p1 = apply(&placements[i], *c1);
                                for (c2, r2) in ds {
                                    let p2 = apply(&placements[j], *c2);
                                    let dx = p2[0] + shift[0] - p1[0];
                                    let dy = p2[1] + shift[1] - p1[1];
                                    let dist = (dx * dx + dy * dy).sqrt();
                                    worst = worst.max(r1 + r2 - dist);
                                }
                            }
                            if worst > TOL {
                                out.push(Overlap { i, j, n, m, depth: worst, proper: true, polygon });
                            }
                        }
                    }
                    if out.len() >= max_report {
                        return out;
                    }
                }
            }
        }
    }
    out
}

#[cfg(test)]
mod t {
    use super::*;
    #[test]
    fn sat_squares() {
        let a = vec![[0.0, 0.0], [1.0, 0.0], [1.0, 1.0], [0.0, 1.0]];
        let b: Vec<[f64; 2]> = a.iter().map(|p| [p[0] + 0.5, p[1] + 0.25]).collect();
        assert!((sat_depth(&a, &b) - 0.5).abs() < 1e-12);
        assert!(has_proper_crossing(&a, &b));
        let c: Vec<[f64; 2]> = a.iter().map(|p| [p[0] + 0.5, p[1]]).collect();
        assert!(sat_depth(&a, &c) > 0.4);
        assert!(!has_proper_crossing(&a, &c));
        let d: Vec<[f64; 2]> = a.iter().map(|p| [p[0] + 1.0, p[1]]).collect();
        assert!(sat_depth(&a, &d) <= 1e-12);
    }
}
