//! Independent table of the seven supported plane groups (general positions, standard setting of
//! International Tables for Crystallography Vol. A) and the symmetry oracle built on it.
//! Written from the tables, not derived from /repo/src/wallpaper.rs.

use super::{aff, apply, Aff, Crystal};

/// fractional operation: x' = W x + w, with w in units of 1/2
#[derive(Clone, Copy, Debug)]
pub struct FracOp {
    pub w: [[i32; 2]; 2],
    pub t2: [i32; 2],
}

const E: [[i32; 2]; 2] = [[1, 0], [0, 1]];
const R2: [[i32; 2]; 2] = [[-1, 0], [0, -1]];
const MX: [[i32; 2]; 2] = [[-1, 0], [0, 1]]; // (-x, y)
const MY: [[i32; 2]; 2] = [[1, 0], [0, -1]]; // (x, -y)

pub struct GroupInfo {
    pub name: &'static str,
    /// "Monoclinic" (oblique) or "Orthorhombic" (rectangular)
    pub family: &'static str,
    pub ops: Vec<FracOp>,
}

pub fn group_info(name: &str) -> Option<GroupInfo> {
    let op = |w, t2| FracOp { w, t2 };
    Some(match name {
        // No. 1
        "p1" => GroupInfo { name: "p1", family: "Monoclinic", ops: vec![op(E, [0, 0])] },
        // No. 2
        "p2" => GroupInfo { name: "p2", family: "Monoclinic", ops: vec![op(E, [0, 0]), op(R2, [0, 0])] },
        // No. 3 pm: (x,y) (-x,y)
        "p1m1" => GroupInfo { name: "p1m1", family: "Orthorhombic", ops: vec![op(E, [0, 0]), op(MX, [0, 0])] },
        // No. 4 pg: (x,y) (-x,y+1/2)
        "p1g1" => GroupInfo { name: "p1g1", family: "Orthorhombic", ops: vec![op(E, [0, 0]), op(MX, [0, 1])] },
        // No. 6 p2mm
        "p2mm" => GroupInfo {
            name: "p2mm",
            family: "Orthorhombic",
            ops: vec![op(E, [0, 0]), op(R2, [0, 0]), op(MX, [0, 0]), op(MY, [0, 0])],
        },
        // No. 7 p2mg: (x,y) (-x,-y) (-x+1/2,y) (x+1/2,-y)
        "p2mg" => GroupInfo {
            name: "p2mg",
            family: "Orthorhombic",
            ops: vec![op(E, [0, 0]), op(R2, [0, 0]), op(MX, [1, 0]), op(MY, [1, 0])],
        },
        // No. 8 p2gg: (x,y) (-x,-y) (-x+1/2,y+1/2) (x+1/2,-y+1/2)
        "p2gg" => GroupInfo {
            name: "p2gg",
            family: "Orthorhombic",
            ops: vec![op(E, [0, 0]), op(R2, [0, 0]), op(MX, [1, 1]), op(MY, [1, 1])],
        },
        _ => return None,
    })
}

#[derive(Debug)]
pub struct SymFailure {
    pub class: &'static str,
    pub detail: String,
}

fn wrap_half(x: f64) -> f64 {
    // to (-0.5, 0.5]
    let mut y = x - x.round();
    if y <= -0.5 {
        y += 1.0;
    }
    y
}

/// Check that the set of placed shapes of `s` is invariant under every operation of `info`, and
/// that every operation is an orthogonal map of the current cell.
pub fn check_symmetry<S: Crystal>(s: &S, info: &GroupInfo) -> Result<(), SymFailure> {
    let c = s.cell();
    let (a, b, t) = (c.a(), c.b(), c.angle());
    // C = [A B] columns
    let cm = [[a, b * t.cos()], [0.0, b * t.sin()]];
    let det = cm[0][0] * cm[1][1] - cm[0][1] * cm[1][0];
    if !(det.abs() > 0.0) || !det.is_finite() {
        return Err(SymFailure { class: "degenerate-cell", detail: format!("cell a={} b={} angle={} has no area", a, b, t) });
    }
    let ci = [[cm[1][1] / det, -cm[0][1] / det], [-cm[1][0] / det, cm[0][0] / det]];
    let size = a.abs().max(b.abs()).max(1.0);
    let tol = 1e-9 * (1.0 + size);

    let pts = s.geometry().points();
    let placements: Vec<Aff> = s.cart().iter().map(aff).collect();
    if placements.len() != info.ops.len() {
        return Err(SymFailure {
            class: "wrong-copy-count",
            detail: format!("{} placements for group {} of order {}", placements.len(), info.name, info.ops.len()),
        });
    }
    // placed copies as point lists in Cartesian space
    let copies: Vec<Vec<([f64; 2], f64)>> = placements.iter().map(|p| pts.iter().map(|(q, r)| (apply(p, *q), *r)).collect()).collect();

    for (gi, g) in info.ops.iter().enumerate() {
        // Cartesian linear part M = C W C^-1
        let w = [[g.w[0][0] as f64, g.w[0][1] as f64], [g.w[1][0] as f64, g.w[1][1] as f64]];
        let cw = [
            [cm[0][0] * w[0][0] + cm[0][1] * w[1][0], cm[0][0] * w[0][1] + cm[0][1] * w[1][1]],
            [cm[1][0] * w[0][0] + cm[1][1] * w[1][0], cm[1][0] * w[0][1] + cm[1][1] * w[1][1]],
        ];
        let m = [
            [cw[0][0] * ci[0][0] + cw[0][1] * ci[1][0], cw[0][0] * ci[0][1] + cw[0][1] * ci[1][1]],
            [cw[1][0] * ci[0][0] + cw[1][1] * ci[1][0], cw[1][0] * ci[0][1] + cw[1][1] * ci[1][1]],
        ];
        let mtm = [
            m[0][0] * m[0][0] + m[1][0] * m[1][0],
            m[0][0] * m[0][1] + m[1][0] * m[1][1],
            m[0][1] * m[0][1] + m[1][1] * m[1][1],
        ];
        if (mtm[0] - 1.0).abs() > 1e-9 || mtm[1].abs() > 1e-9 || (mtm[2] - 1.0).abs() > 1e-9 {
            return Err(SymFailure {
                class: "operation-not-rigid",
                detail: format!(
                    "operation {} of {} is not a rigid motion/reflection of the current cell (a={}, b={}, angle={}): M^T M = [{:.12}, {:.12}; ., {:.12}]",
                    gi, info.name, a, b, t, mtm[0], mtm[1], mtm[2]
                ),
            });
        }
        let sft = [
            cm[0][0] * g.t2[0] as f64 * 0.5 + cm[0][1] * g.t2[1] as f64 * 0.5,
            cm[1][0] * g.t2[0] as f64 * 0.5 + cm[1][1] * g.t2[1] as f64 * 0.5,
        ];
        // image of each copy must coincide with some copy up to one lattice translation
        for (k, copy) in copies.iter().enumerate() {
            let image: Vec<([f64; 2], f64)> = copy
                .iter()
                .map(|(p, r)| ([m[0][0] * p[0] + m[0][1] * p[1] + sft[0], m[1][0] * p[0] + m[1][1] * p[1] + sft[1]], *r))
                .collect();
            let cen = |v: &Vec<([f64; 2], f64)>| -> [f64; 2] {
                let n = v.len() as f64;
                [v.iter().map(|p| p.0[0]).sum::<f64>() / n, v.iter().map(|p| p.0[1]).sum::<f64>() / n]
            };
            let ci_img = cen(&image);
            let mut matched = false;
            for target in copies.iter() {
                let ct = cen(target);
                let d = [ci_img[0] - ct[0], ci_img[1] - ct[1]];
                // fractional difference must be integral
                let f = [ci[0][0] * d[0] + ci[0][1] * d[1], ci[1][0] * d[0] + ci[1][1] * d[1]];
                let fr = [f[0].round(), f[1].round()];
                let lat = [cm[0][0] * fr[0] + cm[0][1] * fr[1], cm[1][0] * fr[0] + cm[1][1] * fr[1]];
                if ((d[0] - lat[0]).powi(2) + (d[1] - lat[1]).powi(2)).sqrt() > tol * 4.0 {
                    continue;
                }
                // every image point must sit on a target point with the same radius tag
                let mut used = vec![false; target.len()];
                let mut all = true;
                for (p, r) in &image {
                    let q = [p[0] - lat[0], p[1] - lat[1]];
                    let mut found = false;
                    for (ti, (tp, tr)) in target.iter().enumerate() {
                        if used[ti] || (tr - r).abs() > 1e-12 {
                            continue;
                        }
                        if ((q[0] - tp[0]).powi(2) + (q[1] - tp[1]).powi(2)).sqrt() <= tol * 4.0 {
                            used[ti] = true;
                            found = true;
                            break;
                        }
                    }
                    if !found {
                        all = false;
                        break;
                    }
                }
                if all {
                    matched = true;
                    break;
                }
            }
            if !matched {
                let _ = wrap_half;
                return Err(SymFailure {
                    class: "not-invariant",
                    detail: format!(
                        "operation {} of {} maps placed copy {} onto no placed copy (modulo lattice translations); cell a={}, b={}, angle={}",
                        gi, info.name, k, a, b, t
                    ),
                });
            }
        }
    }
    Ok(())
}
