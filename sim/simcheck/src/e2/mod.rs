//! E2 — real-crystal simulation.
//!
//! Real code: all of the library (states, cell, sites, wallpaper tables, shapes, optimiser, serde
//! impls, to_svg).  Nothing is stubbed: `Monitored<S>` delegates every call to the real state and
//! only observes.

pub mod c01;
pub mod c04;
pub mod c08;
pub mod c11;
pub mod geom;
pub mod groups;
pub mod real56;

use crate::e1::tracker::Obs;
use crate::e1::OptCfg;
use nalgebra::Matrix3;
use packing::traits::{Basis, State, ToSVG};
use packing::wallpaper::{get_wallpaper_group, Wallpaper, WallpaperGroups};
use packing::{Cell2, LJShape2, LineShape, MolecularShape2, PackedState, PotentialState, StandardBasis, Transform2};
use serde::{Serialize, Serializer};
use sim_core::json::{self, J};
use sim_core::prng::{Hasher64, Rng};
use std::cmp::Ordering;
use std::sync::{Arc, Mutex};

pub const REAL: &[&str] = &[
    "packing::PackedState / PotentialState (score, check_intersection, generate_basis, from_group)",
    "packing::Cell2, OccupiedSite, WyckoffSite, wallpaper tables (through str::parse::<WallpaperGroups> + get_wallpaper_group)",
    "packing::LineShape / MolecularShape2 / LJShape2 and their components",
    "packing::BuildOptimiser / MCOptimiser::optimise_state, StandardBasis, SharedValue",
    "serde impls of all state types with serde_json as configured by /repo/Cargo.toml",
    "packing::to_svg (as_svg) + svg::write",
];
pub const STUB: &[&str] = &["none (Monitored<S> delegates every State call to the real state and only observes)"];

// ---------------------------------------------------------------------------------------------
// geometry read-out of the typed states

#[derive(Clone, Debug)]
pub enum Geometry {
    /// vertices in order
    Polygon(Vec<[f64; 2]>),
    /// (centre, radius)
    Discs(Vec<([f64; 2], f64)>),
}

impl Geometry {
    pub fn enclosing_radius(&self) -> f64 {
        match self {
            Geometry::Polygon(v) => v.iter().map(|p| (p[0] * p[0] + p[1] * p[1]).sqrt()).fold(0.0, f64::max),
            Geometry::Discs(d) => d.iter().map(|(c, r)| (c[0] * c[0] + c[1] * c[1]).sqrt() + r).fold(0.0, f64::max),
        }
    }
    /// points that define the placed shape (polygon vertices / disc centres with a radius tag)
    pub fn points(&self) -> Vec<([f64; 2], f64)> {
        match self {
            Geometry::Polygon(v) => v.iter().map(|p| (*p, 0.0)).collect(),
            Geometry::Discs(d) => d.clone(),
        }
    }
}

/// 2x3 affine part of a Transform2: [[m00, m01, m02], [m10, m11, m12]]
pub type Aff = [[f64; 3]; 2];

pub fn aff(t: &Transform2) -> Aff {
    let m: Matrix3<f64> = (*t).into();
    [[m[(0, 0)], m[(0, 1)], m[(0, 2)]], [m[(1, 0)], m[(1, 1)], m[(1, 2)]]]
}

pub fn apply(a: &Aff, p: [f64; 2]) -> [f64; 2] {
    [a[0][0] * p[0] + a[0][1] * p[1] + a[0][2], a[1][0] * p[0] + a[1][1] * p[1] + a[1][2]]
}

pub trait Crystal: State + Clone + serde::de::DeserializeOwned + Send + 'static {
    const HARD: bool;
    fn cell(&self) -> &Cell2;
    fn wallpaper(&self) -> &Wallpaper;
    fn cart(&self) -> Vec<Transform2>;
    fn rel(&self) -> Vec<Transform2>;
    fn geometry(&self) -> Geometry;
    fn shape_area(&self) -> f64;
}

impl Crystal for PackedState<LineShape> {
    const HARD: bool = true;
    fn cell(&self) -> &Cell2 {
        &self.cell
    }
    fn wallpaper(&self) -> &Wallpaper {
        &self.wallpaper
    }
    fn cart(&self) -> Vec<Transform2> {
        self.cartesian_positions().collect()
    }
    fn rel(&self) -> Vec<Transform2> {
        self.relative_positions().collect()
    }
    fn geometry(&self) -> Geometry {
        Geometry::Polygon(self.shape.items.iter().map(|l| [l.start.x, l.start.y]).collect())
    }
    fn shape_area(&self) -> f64 {
        // shoelace, independent of the library's area()
        let v: Vec<[f64; 2]> = self.shape.items.iter().map(|l| [l.start.x, l.start.y]).collect();
        let mut s = 0.0;
        for i in 0..v.len() {
            let j = (i + 1) % v.len();
            s += v[i][0] * v[j][1] - v[j][0] * v[i][1];
        }
        s.abs() / 2.0
    }
}

impl Crystal for PackedState<MolecularShape2> {
    const HARD: bool = true;
    fn cell(&self) -> &Cell2 {
        &self.cell
    }
    fn wallpaper(&self) -> &Wallpaper {
        &self.wallpaper
    }
    fn cart(&self) -> Vec<Transform2> {
        self.cartesian_positions().collect()
    }
    fn rel(&self) -> Vec<Transform2> {
        self.relative_positions().collect()
    }
    fn geometry(&self) -> Geometry {
        Geometry::Discs(self.shape.items.iter().map(|a| ([a.position.x, a.position.y], a.radius)).collect())
    }
    fn shape_area(&self) -> f64 {
        use packing::traits::Intersect;
        self.shape.area()
    }
}

impl Crystal for PotentialState<LJShape2> {
    const HARD: bool = false;
    fn cell(&self) -> &Cell2 {
        &self.cell
    }
    fn wallpaper(&self) -> &Wallpaper {
        &self.wallpaper
    }
    fn cart(&self) -> Vec<Transform2> {
        self.cartesian_positions().collect()
    }
    fn rel(&self) -> Vec<Transform2> {
        self.relative_positions().collect()
    }
    fn geometry(&self) -> Geometry {
        Geometry::Discs(self.shape.items.iter().map(|a| ([a.position.x, a.position.y], a.sigma / 2.0)).collect())
    }
    fn shape_area(&self) -> f64 {
        0.0
    }
}

// ---------------------------------------------------------------------------------------------
// the monitoring wrapper

/// What a property's monitor does with a typed state at a score() call.
pub trait Monitor<S: Crystal>: Send {
    /// called on every score() call made while a stage runs (and on the harness's own read-out
    /// call after the stage, with `own_call = true`)
    fn on_score(&mut self, _state: &S, _score: Option<f64>, _stage: usize, _call: u64, _own_call: bool) {}
    /// called by the chain interpreter right before a stage's optimise_state call
    fn on_stage_start(&mut self, _state: &S, _stage: usize, _cfg: &OptCfg) {}
    fn as_any(&mut self) -> &mut dyn std::any::Any;
}

/// prefix of the panic message with which `Monitored::score` aborts a stage whose state holds a
/// non-finite parameter
pub const NONFINITE_PARAM: &str = "verif: non-finite parameter:";

pub struct Sink<S: Crystal> {
    pub monitor: Box<dyn Monitor<S>>,
    pub stage: usize,
    pub calls: u64,
    pub capture: bool,
    pub own_call: bool,
    pub last: Option<S>,
    /// record the values behind generate_basis() at every call (for hypothesis tracking)
    pub record_params: bool,
    pub prev: Vec<u64>,
    pub obs: Vec<Obs>,
    /// first evaluation during which the state's own score() changed one of its parameters
    pub score_wrote: Option<String>,
}

pub struct Monitored<S: Crystal> {
    pub inner: S,
    pub sink: Arc<Mutex<Sink<S>>>,
}

impl<S: Crystal> Clone for Monitored<S> {
    fn clone(&self) -> Self {
        Monitored { inner: self.inner.clone(), sink: self.sink.clone() }
    }
}
impl<S: Crystal> std::fmt::Debug for Monitored<S> {
    fn fmt(&self, f: &mut std::fmt::Formatter) -> std::fmt::Result {
        self.inner.fmt(f)
    }
}
impl<S: Crystal> PartialEq for Monitored<S> {
    fn eq(&self, o: &Self) -> bool {
        self.inner.eq(&o.inner)
    }
}
impl<S: Crystal> Eq for Monitored<S> {}
impl<S: Crystal> PartialOrd for Monitored<S> {
    fn partial_cmp(&self, o: &Self) -> Option<Ordering> {
        self.inner.partial_cmp(&o.inner)
    }
}
impl<S: Crystal> Ord for Monitored<S> {
    fn cmp(&self, o: &Self) -> Ordering {
        self.inner.cmp(&o.inner)
    }
}
impl<S: Crystal> Serialize for Monitored<S> {
    fn serialize<Z: Serializer>(&self, s: Z) -> Result<Z::Ok, Z::Error> {
        self.inner.serialize(s)
    }
}
impl<S: Crystal> ToSVG for Monitored<S> {
    type Value = svg::Document;
    fn as_svg(&self) -> Self::Value {
        self.inner.as_svg()
    }
}
impl<S: Crystal> State for Monitored<S> {
    fn score(&self) -> Option<f64> {
        // A state whose parameters are not finite numbers is never handed to the real score():
        // its image enumeration need not terminate on NaN or infinite coordinates, and the
        // simulator must turn that into a reported stage failure, not into a stalled run.
        if let Some((i, v)) = self.inner.generate_basis().iter().map(|b| b.get_value()).enumerate().find(|(_, v)| !v.is_finite()) {
            if self.sink.lock().unwrap().own_call {
                return None;
            }
            panic!("{} basis entry {} holds {}", NONFINITE_PARAM, i, v);
        }
        // evaluating a state is a read: the parameters are the same before and after
        let before: Vec<u64> = self.inner.generate_basis().iter().map(|b| b.get_value().to_bits()).collect();
        let sc = self.inner.score();
        let after: Vec<u64> = self.inner.generate_basis().iter().map(|b| b.get_value().to_bits()).collect();
        let mut g = self.sink.lock().unwrap();
        if before != after && g.score_wrote.is_none() {
            let i = before.iter().zip(after.iter()).position(|(a, b)| a != b).unwrap_or(0);
            g.score_wrote = Some(format!(
                "score() call {} changed parameter {} from {:e} to {:e}",
                g.calls,
                i,
                f64::from_bits(*before.get(i).unwrap_or(&0)),
                f64::from_bits(*after.get(i).unwrap_or(&0))
            ));
        }
        let sink = &mut *g;
        let call = sink.calls;
        sink.calls += 1;
        if sink.record_params && !sink.own_call {
            let vals: Vec<u64> = self.inner.generate_basis().iter().map(|b| b.get_value().to_bits()).collect();
            if sink.prev.len() != vals.len() {
                sink.prev = vals.clone();
            }
            let mut diff = Vec::new();
            for (i, b) in vals.iter().enumerate() {
                if *b != sink.prev[i] {
                    diff.push((i as u32, *b));
                    sink.prev[i] = *b;
                }
            }
            sink.obs.push(Obs { diff, score: sc });
        }
        let stage = sink.stage;
        let own = sink.own_call;
        sink.monitor.on_score(&self.inner, sc, stage, call, own);
        if sink.capture {
            sink.last = Some(self.inner.clone());
            sink.capture = false;
        }
        sc
    }
    fn generate_basis(&self) -> Vec<StandardBasis> {
        self.inner.generate_basis()
    }
    fn total_shapes(&self) -> usize {
        self.inner.total_shapes()
    }
    fn as_positions(&self) -> Result<String, anyhow::Error> {
        self.inner.as_positions()
    }
}

// ---------------------------------------------------------------------------------------------
// scenarios

#[derive(Clone, Debug, PartialEq)]
pub enum ShapeSpec {
    Polygon(usize),
    /// radial polygon through LineShape::from_radial (may be chiral / non-regular)
    Radial(Vec<f64>),
    Circle,
    Trimer { radius: f64, angle: f64, distance: f64 },
}

impl ShapeSpec {
    pub fn to_json(&self) -> J {
        match self {
            ShapeSpec::Polygon(n) => J::obj().set("kind", J::str("polygon")).set("sides", J::uint(*n as u64)),
            ShapeSpec::Radial(r) => J::obj().set("kind", J::str("radial")).set("radii", J::Arr(r.iter().map(|x| J::f64bits(*x)).collect())),
            ShapeSpec::Circle => J::obj().set("kind", J::str("circle")),
            ShapeSpec::Trimer { radius, angle, distance } => J::obj()
                .set("kind", J::str("trimer"))
                .set("radius", J::f64bits(*radius))
                .set("angle", J::f64bits(*angle))
                .set("distance", J::f64bits(*distance)),
        }
    }
    pub fn from_json(j: &J) -> Result<ShapeSpec, String> {
        let f = |k: &str| j.get(k).and_then(|x| x.as_f64bits()).ok_or(format!("shape.{}", k));
        match j.get("kind").and_then(|k| k.as_str()) {
            Some("polygon") => Ok(ShapeSpec::Polygon(j.get("sides").and_then(|x| x.as_u64()).ok_or("shape.sides")? as usize)),
            Some("radial") => Ok(ShapeSpec::Radial(
                j.get("radii").and_then(|a| a.as_arr()).ok_or("shape.radii")?.iter().filter_map(|x| x.as_f64bits()).collect(),
            )),
            Some("circle") => Ok(ShapeSpec::Circle),
            Some("trimer") => Ok(ShapeSpec::Trimer { radius: f("radius")?, angle: f("angle")?, distance: f("distance")? }),
            other => Err(format!("unknown shape kind {:?}", other)),
        }
    }
    pub fn is_disc_shape(&self) -> bool {
        matches!(self, ShapeSpec::Circle | ShapeSpec::Trimer { .. })
    }
}

#[derive(Clone, Debug, PartialEq)]
pub enum Op {
    Stage(OptCfg),
    /// write (parameter name, value) through the public Basis API, keep only if still valid
    Special(Vec<(String, f64)>),
    Restart,
    CloneDiscard,
    /// F-outside on a real state: the state goes through its JSON form with one parameter rewritten
    /// to an equivalent or at least valid value OUTSIDE its declared range ("x+1", "y-1",
    /// "angle-2pi", "angle+2pi", "cell-obtuse"); kept only if the edited state still has a finite score
    JsonEdit(String),
    /// F-contact: bisect one parameter (normally cell.length) downwards from its current, valid
    /// value until the state stops being valid, and leave it at the last valid value: a packing
    /// whose copies touch within the given relative gap, as seen by the implementation's own test
    Contact(String, f64),
    /// relative writes: parameter := current value + delta, kept only if still valid (a hair off a
    /// special value, a hair into a neighbour)
    Nudge(Vec<(String, f64)>),
}

impl Op {
    pub fn to_json(&self) -> J {
        match self {
            Op::Stage(c) => J::obj().set("op", J::str("stage")).set("opt", c.to_json()),
            Op::Special(w) => J::obj().set("op", J::str("special")).set(
                "writes",
                J::Arr(w.iter().map(|(n, v)| J::obj().set("param", J::str(n.clone())).set("value", J::f64bits(*v))).collect()),
            ),
            Op::Restart => J::obj().set("op", J::str("restart")),
            Op::CloneDiscard => J::obj().set("op", J::str("clone_discard")),
            Op::JsonEdit(k) => J::obj().set("op", J::str("json_edit")).set("edit", J::str(k.clone())),
            Op::Contact(n, g) => J::obj().set("op", J::str("contact")).set("param", J::str(n.clone())).set("gap", J::f64bits(*g)),
            Op::Nudge(w) => J::obj().set("op", J::str("nudge")).set(
                "writes",
                J::Arr(w.iter().map(|(n, v)| J::obj().set("param", J::str(n.clone())).set("delta", J::f64bits(*v))).collect()),
            ),
        }
    }
    pub fn from_json(j: &J) -> Result<Op, String> {
        match j.get("op").and_then(|o| o.as_str()) {
            Some("stage") => Ok(Op::Stage(OptCfg::from_json(j.get("opt").ok_or("stage.opt")?)?)),
            Some("special") => {
                let mut w = vec![];
                for e in j.get("writes").and_then(|a| a.as_arr()).ok_or("special.writes")? {
                    w.push((
                        e.get("param").and_then(|p| p.as_str()).ok_or("write.param")?.to_string(),
                        e.get("value").and_then(|v| v.as_f64bits()).ok_or("write.value")?,
                    ));
                }
                Ok(Op::Special(w))
            }
            Some("restart") => Ok(Op::Restart),
            Some("clone_discard") => Ok(Op::CloneDiscard),
            Some("json_edit") => Ok(Op::JsonEdit(j.get("edit").and_then(|e| e.as_str()).ok_or("json_edit.edit")?.to_string())),
            Some("contact") => Ok(Op::Contact(
                j.get("param").and_then(|p| p.as_str()).ok_or("contact.param")?.to_string(),
                j.get("gap").and_then(|v| v.as_f64bits()).ok_or("contact.gap")?,
            )),
            Some("nudge") => {
                let mut w = vec![];
                for e in j.get("writes").and_then(|a| a.as_arr()).ok_or("nudge.writes")? {
                    w.push((
                        e.get("param").and_then(|p| p.as_str()).ok_or("nudge.param")?.to_string(),
                        e.get("delta").and_then(|v| v.as_f64bits()).ok_or("nudge.delta")?,
                    ));
                }
                Ok(Op::Nudge(w))
            }
            other => Err(format!("unknown op {:?}", other)),
        }
    }
}

#[derive(Clone, Debug, PartialEq)]
pub struct Scenario {
    pub group: String,
    pub shape: ShapeSpec,
    pub lj: bool,
    pub chain: Vec<Op>,
}

impl Scenario {
    pub fn to_json(&self) -> J {
        J::obj()
            .set("engine", J::str("e2-crystal"))
            .set("group", J::str(self.group.clone()))
            .set("shape", self.shape.to_json())
            .set("potential", J::str(if self.lj { "LJ" } else { "Hard" }))
            .set("chain", J::Arr(self.chain.iter().map(|o| o.to_json()).collect()))
    }
    pub fn from_json(j: &J) -> Result<Scenario, String> {
        let mut chain = vec![];
        for o in j.get("chain").and_then(|a| a.as_arr()).ok_or("scenario.chain")? {
            chain.push(Op::from_json(o)?);
        }
        Ok(Scenario {
            group: j.get("group").and_then(|g| g.as_str()).ok_or("scenario.group")?.to_string(),
            shape: ShapeSpec::from_json(j.get("shape").ok_or("scenario.shape")?)?,
            lj: j.get("potential").and_then(|p| p.as_str()) == Some("LJ"),
            chain,
        })
    }
}

pub const GROUPS: [&str; 7] = ["p1", "p2", "p1m1", "p1g1", "p2mm", "p2mg", "p2gg"];

/// names of the six optimisable quantities as they appear in the serialised state
pub const PARAM_NAMES: [&str; 6] = ["cell.length", "cell.ratio", "cell.angle", "site0.x", "site0.y", "site0.angle"];

/// exact read-out of the named parameters through the state's own serialisation (numbers are
/// parsed by the harness's exact parser, not by serde_json)
pub fn read_params_json(text: &str) -> Result<(J, Vec<(String, f64)>), String> {
    let j = json::parse(text)?;
    let mut out = vec![];
    for (name, path) in [
        ("cell.length", vec!["cell", "length"]),
        ("cell.ratio", vec!["cell", "ratio"]),
        ("cell.angle", vec!["cell", "angle"]),
    ] {
        // (a non-finite value is serialised as null: it is read as NaN, which no range contains)
        let v = match j.path(&path) {
            Some(J::Null) => f64::NAN,
            other => other.and_then(|x| x.as_f64()).ok_or(format!("state json: missing {}", name))?,
        };
        out.push((name.to_string(), v));
    }
    let sites = j.get("occupied_sites").and_then(|a| a.as_arr()).ok_or("state json: occupied_sites")?;
    for (k, s) in sites.iter().enumerate() {
        for f in ["x", "y", "angle"] {
            let v = match s.get(f) {
                Some(J::Null) => f64::NAN,
                other => other.and_then(|x| x.as_f64()).ok_or(format!("state json: site{}.{}", k, f))?,
            };
            out.push((format!("site{}.{}", k, f), v));
        }
    }
    Ok((j, out))
}

pub fn to_json_text<S: Serialize>(s: &S) -> Result<String, String> {
    serde_json::to_string(s).map_err(|e| format!("serialise: {}", e))
}

/// which named parameter each entry of generate_basis() drives: found by perturbing a clone
pub fn basis_names<S: Crystal>(state: &S) -> Result<Vec<String>, String> {
    let (_, before) = read_params_json(&to_json_text(state)?)?;
    let n = state.generate_basis().len();
    let mut names = Vec::with_capacity(n);
    for i in 0..n {
        // a fresh clone per entry: the probe is thrown away, nothing has to be restored (restoring
        // is exactly what C06 is about and must not be relied upon here)
        let probe = state.clone();
        let mut basis = probe.generate_basis();
        if i >= basis.len() {
            names.push(format!("unidentified{}", i));
            continue;
        }
        let old = basis[i].get_value();
        let delta = 1e-6 * old.abs().max(1.0);
        basis[i].set_value(old - delta);
        if basis[i].get_value() == old {
            basis[i].set_value(old + delta);
        }
        if basis[i].get_value() == old {
            // zero-width range (e.g. length at its lower bound): cannot be identified by perturbation
            names.push(format!("unidentified{}", i));
            continue;
        }
        let (_, after) = read_params_json(&to_json_text(&probe)?)?;
        let changed: Vec<&String> = before
            .iter()
            .zip(after.iter())
            .filter(|(a, b)| a.1.to_bits() != b.1.to_bits())
            .map(|(a, _)| &a.0)
            .collect();
        if changed.len() != 1 {
            // a clone that does not start out equal to the original, or a setter that moves two
            // parameters: not identifiable; the checks that care (C08, C09) report it themselves
            names.push(format!("unidentified{}", i));
            continue;
        }
        names.push(changed[0].clone());
    }
    Ok(names)
}

// ---------------------------------------------------------------------------------------------
// chain interpreter

pub struct ChainEvents<S: Crystal> {
    /// state at the start (after from_group)
    pub initial: S,
    /// (op index, state before, state after, per-stage observations if recorded)
    pub boundaries: Vec<Boundary<S>>,
    pub panic: Option<(usize, String)>,
    pub sim_steps: u64,
    pub clamps: u64,
    pub specials_kept: u64,
    pub contacts: u64,
    pub specials_dropped: u64,
    pub restarts: u64,
    pub json_edits: u64,
    pub restart_error: Option<String>,
    /// see Sink::score_wrote
    pub score_wrote: Option<String>,
}

pub struct Boundary<S: Crystal> {
    pub op: usize,
    pub kind: &'static str,
    pub before: S,
    pub after: S,
    pub obs: Vec<Obs>,
    pub x0: Vec<u64>,
    pub ret: Vec<u64>,
    pub cfg: Option<OptCfg>,
}

pub fn basis_bits<S: Crystal>(s: &S) -> Vec<u64> {
    s.generate_basis().iter().map(|b| b.get_value().to_bits()).collect()
}

pub fn run_stage<S: Crystal>(
    state: S,
    cfg: &OptCfg,
    sink: &Arc<Mutex<Sink<S>>>,
    stage: usize,
) -> Result<Result<S, String>, String> {
    crate::e1::install_quiet_panic_hook();
    let builder = cfg.builder()?;
    {
        let mut g = sink.lock().unwrap();
        g.stage = stage;
        g.own_call = false;
        g.prev = basis_bits(&state);
        g.obs.clear();
        g.monitor.on_stage_start(&state, stage, cfg);
    }
    let m = Monitored { inner: state, sink: sink.clone() };
    let _ = crate::e1::take_panic();
    let res = std::panic::catch_unwind(std::panic::AssertUnwindSafe(|| builder.build().optimise_state(m)));
    match res {
        Err(_) => {
            let msg = crate::e1::take_panic().unwrap_or_else(|| "panic".into());
            // un-poison
            if sink.is_poisoned() {
                sink.clear_poison();
            }
            Ok(Err(msg))
        }
        Ok(ret) => {
            {
                let mut g = sink.lock().unwrap();
                g.capture = true;
                g.own_call = true;
            }
            let _ = ret.score();
            let mut g = sink.lock().unwrap();
            g.own_call = false;
            match g.last.take() {
                Some(s) => Ok(Ok(s)),
                None => Err("monitor did not capture the returned state".into()),
            }
        }
    }
}

/// apply special-position writes through the public Basis API; returns (kept, dropped)
/// see Op::Contact; returns 1 if a valid/invalid boundary was found and approached
pub fn apply_contact<S: Crystal>(state: &S, name: &str, gap: f64) -> Result<u64, String> {
    let names = basis_names(state)?;
    let i = match names.iter().position(|n| n == name) {
        Some(i) => i,
        None => return Ok(0),
    };
    let mut basis = state.generate_basis();
    if i >= basis.len() {
        return Ok(0);
    }
    let valid = |s: &S| s.score().map(|x| x.is_finite()).unwrap_or(false);
    let mut hi = basis[i].get_value();
    if !valid(state) || !(hi.is_finite() && hi > 0.0) {
        return Ok(0);
    }
    let mut lo = hi * 0.05;
    basis[i].set_value(lo);
    lo = basis[i].get_value(); // (clamped to the parameter's own lower bound)
    if valid(state) {
        // no contact above the lower bound: stay there
        return Ok(0);
    }
    let mut it = 0;
    while hi - lo > gap * hi.abs() && it < 200 {
        let mid = 0.5 * (hi + lo);
        basis[i].set_value(mid);
        if valid(state) {
            hi = mid;
        } else {
            lo = mid;
        }
        it += 1;
    }
    basis[i].set_value(hi);
    Ok(1)
}

pub fn apply_special<S: Crystal>(state: &S, writes: &[(String, f64)]) -> Result<(u64, u64), String> {
    let names = basis_names(state)?;
    let (mut kept, mut dropped) = (0, 0);
    for (name, value) in writes {
        if let Some(i) = names.iter().position(|n| n == name) {
            let mut basis = state.generate_basis();
            // (names were found on a clone; if the clone offers other parameters than the
            // original - which C04/C08/C09 report - the write is simply skipped)
            if i >= basis.len() {
                continue;
            }
            basis[i].set_value(*value);
            if state.score().map(|s| s.is_finite()).unwrap_or(false) {
                kept += 1;
            } else {
                basis[i].reset_value();
                dropped += 1;
            }
        }
    }
    Ok((kept, dropped))
}

/// rewrite one parameter in the state's JSON form (see Op::JsonEdit); None = edit not applicable
/// or the edited state has no finite score
pub fn json_edit<S: Crystal>(state: &S, kind: &str) -> Result<Option<S>, String> {
    use std::f64::consts::PI;
    let text = to_json_text(state)?;
    let mut j = json::parse(&text)?;
    let fam = j.path(&["cell", "family"]).and_then(|x| x.as_str()).unwrap_or("").to_string();
    fn site0(j: &mut J) -> Option<&mut J> {
        match j {
            J::Obj(m) => m.iter_mut().find(|e| e.0 == "occupied_sites").and_then(|e| match &mut e.1 {
                J::Arr(a) => a.get_mut(0),
                _ => None,
            }),
            _ => None,
        }
    }
    fn cell(j: &mut J) -> Option<&mut J> {
        match j {
            J::Obj(m) => m.iter_mut().find(|e| e.0 == "cell").map(|e| &mut e.1),
            _ => None,
        }
    }
    let edit = |obj: Option<&mut J>, field: &str, f: &dyn Fn(f64) -> f64| -> bool {
        if let Some(o) = obj {
            if let Some(v) = o.get(field).and_then(|x| x.as_f64()) {
                o.put(field, J::num(f(v)));
                return true;
            }
        }
        false
    };
    let done = match kind {
        "x+1" => edit(site0(&mut j), "x", &|v| v + 1.0),
        "y-1" => edit(site0(&mut j), "y", &|v| v - 1.0),
        "angle-2pi" => edit(site0(&mut j), "angle", &|v| v - 2.0 * PI),
        "angle+2pi" => edit(site0(&mut j), "angle", &|v| v + 2.0 * PI),
        "cell-obtuse" if fam == "Monoclinic" => edit(cell(&mut j), "angle", &|v| PI - v),
        _ => false,
    };
    if !done {
        return Ok(None);
    }
    let edited: S = match serde_json::from_str::<S>(&j.to_string()) {
        Ok(s) => s,
        Err(_) => return Ok(None),
    };
    match edited.score() {
        Some(x) if x.is_finite() => Ok(Some(edited)),
        _ => Ok(None),
    }
}

pub fn restart<S: Crystal>(state: &S) -> Result<S, String> {
    let text = to_json_text(state)?;
    serde_json::from_str::<S>(&text).map_err(|e| format!("deserialise: {}", e))
}

pub fn run_chain<S: Crystal>(initial: S, chain: &[Op], monitor: Box<dyn Monitor<S>>, record_params: bool) -> Result<(ChainEvents<S>, Box<dyn Monitor<S>>), String> {
    let sink = Arc::new(Mutex::new(Sink {
        monitor,
        stage: 0,
        calls: 0,
        capture: false,
        own_call: false,
        last: None,
        record_params,
        prev: vec![],
        obs: vec![],
        score_wrote: None,
    }));
    let mut ev = ChainEvents {
        initial: initial.clone(),
        boundaries: vec![],
        panic: None,
        sim_steps: 0,
        clamps: 0,
        specials_kept: 0,
        contacts: 0,
        specials_dropped: 0,
        restarts: 0,
        json_edits: 0,
        restart_error: None,
        score_wrote: None,
    };
    let mut cur = initial;
    for (k, op) in chain.iter().enumerate() {
        match op {
            Op::Stage(cfg) => {
                let before = cur.clone();
                let x0 = basis_bits(&before);
                match run_stage(cur, cfg, &sink, k)? {
                    Err(msg) => {
                        ev.panic = Some((k, msg));
                        break;
                    }
                    Ok(after) => {
                        let obs = std::mem::take(&mut sink.lock().unwrap().obs);
                        ev.sim_steps += cfg.steps;
                        let ret = basis_bits(&after);
                        ev.boundaries.push(Boundary { op: k, kind: "stage", before, after: after.clone(), obs, x0, ret, cfg: Some(cfg.clone()) });
                        cur = after;
                    }
                }
            }
            Op::Special(w) => {
                let before = cur.clone();
                let (kept, dropped) = apply_special(&cur, w)?;
                ev.specials_kept += kept;
                ev.specials_dropped += dropped;
                ev.boundaries.push(Boundary { op: k, kind: "special", before, after: cur.clone(), obs: vec![], x0: vec![], ret: vec![], cfg: None });
            }
            Op::Contact(name, gap) => {
                let before = cur.clone();
                ev.contacts += apply_contact(&cur, name, *gap)?;
                ev.boundaries.push(Boundary { op: k, kind: "special", before, after: cur.clone(), obs: vec![], x0: vec![], ret: vec![], cfg: None });
            }
            Op::Nudge(w) => {
                let before = cur.clone();
                let names = basis_names(&cur)?;
                let abs: Vec<(String, f64)> = {
                    let basis = cur.generate_basis();
                    w.iter().filter_map(|(n, d)| names.iter().position(|x| x == n).filter(|i| *i < basis.len()).map(|i| (n.clone(), basis[i].get_value() + d))).collect()
                };
                let (kept, dropped) = apply_special(&cur, &abs)?;
                ev.specials_kept += kept;
                ev.specials_dropped += dropped;
                ev.boundaries.push(Boundary { op: k, kind: "special", before, after: cur.clone(), obs: vec![], x0: vec![], ret: vec![], cfg: None });
            }
            Op::Restart => {
                let before = cur.clone();
                match restart(&cur) {
                    Ok(s) => {
                        ev.restarts += 1;
                        ev.boundaries.push(Boundary { op: k, kind: "restart", before, after: s.clone(), obs: vec![], x0: vec![], ret: vec![], cfg: None });
                        cur = s;
                    }
                    Err(e) => {
                        ev.restart_error = Some(e);
                        break;
                    }
                }
            }
            Op::JsonEdit(kind) => {
                let before = cur.clone();
                match json_edit(&cur, kind)? {
                    Some(s) => {
                        ev.json_edits += 1;
                        ev.boundaries.push(Boundary { op: k, kind: "json_edit", before, after: s.clone(), obs: vec![], x0: vec![], ret: vec![], cfg: None });
                        cur = s;
                    }
                    None => {}
                }
            }
            Op::CloneDiscard => {
                // a clone is optimised and thrown away; the original must be untouched (checked by
                // the monitors through `before`/`after` of this boundary)
                let before = cur.clone();
                let clone = cur.clone();
                let mut cfg = OptCfg { steps: 50, inner: 50, kt_start: 0.5, kt_finish: None, kt_ratio: Some(0.0), max_step: 0.2, convergence: None, seed: k as u64, order: 0, prior: None };
                cfg.seed = k as u64 + 17;
                let quiet: Arc<Mutex<Sink<S>>> = Arc::new(Mutex::new(Sink {
                    monitor: Box::new(NoMonitor),
                    stage: k,
                    calls: 0,
                    capture: false,
                    own_call: false,
                    last: None,
                    record_params: false,
                    prev: vec![],
                    obs: vec![],
                    score_wrote: None,
                }));
                let _ = run_stage(clone, &cfg, &quiet, k)?;
                ev.boundaries.push(Boundary { op: k, kind: "clone_discard", before, after: cur.clone(), obs: vec![], x0: vec![], ret: vec![], cfg: None });
            }
        }
    }
    let sink = Arc::try_unwrap(sink).map_err(|_| "sink still shared".to_string())?.into_inner().map_err(|_| "sink poisoned".to_string())?;
    ev.score_wrote = sink.score_wrote.clone();
    Ok((ev, sink.monitor))
}

pub struct NoMonitor;
impl<S: Crystal> Monitor<S> for NoMonitor {
    fn as_any(&mut self) -> &mut dyn std::any::Any {
        self
    }
}

// ---------------------------------------------------------------------------------------------
// construction through the path the CLI takes

pub fn wallpaper_group(name: &str) -> Result<packing::WallpaperGroup<'static>, String> {
    let g: WallpaperGroups = name.parse().map_err(|e| format!("group name {}: {}", name, e))?;
    get_wallpaper_group(g).map_err(|e| e.to_string())
}

pub fn line_shape(spec: &ShapeSpec) -> Result<LineShape, String> {
    match spec {
        ShapeSpec::Polygon(n) => LineShape::polygon(*n).map_err(|e| e.to_string()),
        ShapeSpec::Radial(r) => LineShape::from_radial("Radial", r.clone()).map_err(|e| e.to_string()),
        _ => Err("not a line shape".into()),
    }
}

pub fn mol_shape(spec: &ShapeSpec) -> Result<MolecularShape2, String> {
    match spec {
        ShapeSpec::Circle => Ok(MolecularShape2::circle()),
        ShapeSpec::Trimer { radius, angle, distance } => Ok(MolecularShape2::from_trimer(*radius, *angle, *distance)),
        _ => Err("not a molecular shape".into()),
    }
}

pub fn lj_shape(spec: &ShapeSpec) -> Result<LJShape2, String> {
    match spec {
        ShapeSpec::Circle => Ok(LJShape2::circle()),
        ShapeSpec::Trimer { radius, angle, distance } => Ok(LJShape2::from_trimer(*radius, *angle, *distance)),
        _ => Err("not an LJ shape".into()),
    }
}

/// Dispatch a scenario to the concrete state type.
#[macro_export]
macro_rules! with_state {
    ($sc:expr, $f:ident, $($arg:expr),*) => {{
        let sc: &$crate::e2::Scenario = $sc;
        let wg = $crate::e2::wallpaper_group(&sc.group)?;
        match (&sc.shape, sc.lj) {
            ($crate::e2::ShapeSpec::Polygon(_), false) | ($crate::e2::ShapeSpec::Radial(_), false) => {
                let st = packing::PackedState::from_group($crate::e2::line_shape(&sc.shape)?, &wg).map_err(|e| e.to_string())?;
                $f(st, $($arg),*)
            }
            (_, false) => {
                let st = packing::PackedState::from_group($crate::e2::mol_shape(&sc.shape)?, &wg).map_err(|e| e.to_string())?;
                $f(st, $($arg),*)
            }
            ($crate::e2::ShapeSpec::Circle, true) | ($crate::e2::ShapeSpec::Trimer { .. }, true) => {
                let st = packing::PotentialState::from_group($crate::e2::lj_shape(&sc.shape)?, &wg).map_err(|e| e.to_string())?;
                $f(st, $($arg),*)
            }
            _ => Err("polygon with LJ potential is not supported by the library".to_string()),
        }
    }};
}

// ---------------------------------------------------------------------------------------------
// swarm generators

pub fn trimer_ok(radius: f64, angle: f64, distance: f64) -> bool {
    // a disc swallowed by another makes the pairwise area formula NaN: not a shape of well-defined area
    use packing::traits::Intersect;
    let a = MolecularShape2::from_trimer(radius, angle, distance).area();
    a.is_finite() && a > 0.0
}

pub fn gen_shape(rng: &mut Rng, lj: bool, allow_radial: bool) -> ShapeSpec {
    loop {
        let k = rng.below(if lj { 4 } else { 10 });
        let s = if lj {
            match k {
                0 => ShapeSpec::Circle,
                _ => gen_trimer(rng),
            }
        } else {
            match k {
                0 => ShapeSpec::Circle,
                1 | 2 | 3 => gen_trimer(rng),
                4 if allow_radial => {
                    let n = rng.range_u64(3, 7) as usize;
                    ShapeSpec::Radial((0..n).map(|_| (rng.range_f64(0.75, 1.25) * 1000.0).round() / 1000.0).collect())
                }
                _ => ShapeSpec::Polygon(rng.range_u64(3, 12) as usize),
            }
        };
        if let ShapeSpec::Trimer { radius, angle, distance } = &s {
            if !trimer_ok(*radius, *angle, *distance) {
                continue;
            }
        }
        return s;
    }
}

pub fn gen_trimer(rng: &mut Rng) -> ShapeSpec {
    if rng.chance(0.25) {
        return ShapeSpec::Trimer { radius: 0.637556, angle: 120.0, distance: 1.0 };
    }
    ShapeSpec::Trimer {
        radius: (rng.range_f64(0.3, 1.2) * 1000.0).round() / 1000.0,
        angle: rng.range_f64(40.0, 180.0).round(),
        distance: (rng.range_f64(0.3, 2.5) * 100.0).round() / 100.0,
    }
}

pub fn gen_stage_cfg(rng: &mut Rng, max_steps: u64, cli_like: bool) -> OptCfg {
    let steps = if cli_like { *rng.pick(&[1000u64, 300, 100]) } else { *rng.pick(&[50u64, 100, 200, 500, 1000]) }.min(max_steps);
    let loops = *rng.pick(&[1u64, 1, 2, 5, 10]);
    let (kt_finish, kt_ratio) = *rng.pick(&[(Some(1e-3), None), (None, None), (None, Some(0.0)), (None, Some(0.1)), (Some(0.0), None)]);
    // (a fifth of the stages ask for a number of steps that is not a whole number of inner loops)
    let steps = if rng.chance(0.2) { steps + 1 + rng.below(((steps / loops).max(2)) - 1) } else { steps };
    OptCfg {
        steps,
        inner: ((steps / loops).max(1)).min(if rng.chance(0.5) { u64::MAX } else { (steps * 3 / 10).max(1) }),
        // (both ends of the scale, rarely: a temperature at which everything valid is accepted,
        // and one at which nothing worse ever is)
        kt_start: if cli_like { 0.0 } else if rng.chance(0.04) { *rng.pick(&[1e308, 1e300, 1e-300]) } else { *rng.pick(&[0.0, 0.0, 1e-3, 0.1, 0.1, 1.0]) },
        kt_finish,
        kt_ratio,
        max_step: *rng.pick(&[1e-3, 0.01, 0.01, 0.1, 0.5, 1.0, 1.0, 2.5, 5.0]),
        convergence: *rng.pick(&[None, None, None, Some(1e-6)]),
        seed: rng.below(1 << 32),
        order: if rng.chance(0.3) { 1 + rng.below(1 << 20) } else { 0 },
        prior: if rng.chance(0.15) { Some((*rng.pick(&[1u64, 10, 100_000]), *rng.pick(&[1u64, 7, 100_000]))) } else { None },
    }
}

pub fn gen_special(rng: &mut Rng, n_sides: Option<usize>) -> Op {
    use std::f64::consts::PI;
    let mut w = vec![];
    let k = rng.range_u64(1, 4);
    for _ in 0..k {
        let name = rng.pick(&PARAM_NAMES).to_string();
        let v = match name.as_str() {
            "cell.length" => rng.range_f64(0.0, 4.0),
            "cell.ratio" => *rng.pick(&[0.1, 0.2, 0.25, 0.3, 0.34, 0.4, 0.5, 0.55, 0.6, 1.0]),
            "cell.angle" => *rng.pick(&[PI / 6.0, PI / 4.0, PI / 3.0, PI / 2.0 - 0.5, PI / 2.0 - 0.2, PI / 2.0, 0.9]),
            "site0.x" | "site0.y" => *rng.pick(&[-0.5, 0.5, 0.0, 0.25, -0.25, -0.45, 0.45, 0.5 - 1e-9]),
            _ => match n_sides {
                Some(n) => *rng.pick(&[0.0, PI / 2.0, PI, 2.0 * PI, PI / n as f64, 2.0 * PI / n as f64, PI - PI / n as f64]),
                None => *rng.pick(&[0.0, PI / 2.0, PI, 2.0 * PI, PI / 3.0, 1.0]),
            },
        };
        // a hair off the special value, on either side (a clamp turns the outer side into the value itself)
        let v = if rng.chance(0.2) { v + *rng.pick(&[-1e-3, -1e-4, -1e-5, -9e-7, -5e-7, -1e-7, -1e-9, -1e-12, 1e-12, 1e-9, 1e-7, 1e-5]) } else { v };
        w.push((name, v));
    }
    Op::Special(w)
}

pub fn gen_scenario(rng: &mut Rng, hard_only: bool, lj_only: bool, allow_radial: bool, max_stages: u64, max_steps: u64) -> Scenario {
    let lj = if hard_only { false } else if lj_only { true } else { rng.chance(0.35) };
    let shape = gen_shape(rng, lj, allow_radial);
    let group = rng.pick(&GROUPS).to_string();
    let n_sides = match &shape {
        ShapeSpec::Polygon(n) => Some(*n),
        ShapeSpec::Radial(r) => Some(r.len()),
        _ => None,
    };
    let stages = rng.range_u64(1, max_stages);
    let mut chain = vec![];
    let cli_chain = rng.chance(0.15);
    for s in 0..stages {
        if s > 0 || rng.chance(0.3) {
            match rng.below(6) {
                0 | 1 => chain.push(gen_special(rng, n_sides)),
                2 => chain.push(Op::Restart),
                3 => chain.push(Op::CloneDiscard),
                _ => {}
            }
        }
        let cli_like = cli_chain && (s == 0 || s + 1 == stages);
        let first_zero = s == 0 && rng.chance(0.5);
        chain.push(Op::Stage(gen_stage_cfg(rng, max_steps, cli_like || first_zero)));
    }
    if rng.chance(0.2) {
        chain.push(Op::Restart);
    }
    Scenario { group, shape, lj, chain }
}

pub fn shrink_scenario(sc: &Scenario) -> Vec<Scenario> {
    let mut out = vec![];
    // drop ops
    for i in 0..sc.chain.len() {
        if sc.chain.len() > 1 {
            let mut c = sc.clone();
            c.chain.remove(i);
            out.push(c);
        }
    }
    // halve step counts / simplify stages
    for (i, op) in sc.chain.iter().enumerate() {
        if let Op::Stage(cfg) = op {
            if cfg.steps > 1 {
                let mut c = sc.clone();
                let mut n = cfg.clone();
                n.steps = cfg.steps / 2;
                n.inner = (cfg.inner / 2).max(1);
                c.chain[i] = Op::Stage(n);
                out.push(c);
            }
            if cfg.convergence.is_some() {
                let mut c = sc.clone();
                let mut n = cfg.clone();
                n.convergence = None;
                c.chain[i] = Op::Stage(n);
                out.push(c);
            }
            if cfg.seed > 3 {
                let mut c = sc.clone();
                let mut n = cfg.clone();
                n.seed = 0;
                c.chain[i] = Op::Stage(n);
                out.push(c);
            }
        }
        if let Op::Special(w) = op {
            if w.len() > 1 {
                for k in 0..w.len() {
                    let mut c = sc.clone();
                    let mut ww = w.clone();
                    ww.remove(k);
                    c.chain[i] = Op::Special(ww);
                    out.push(c);
                }
            }
        }
    }
    // simpler group / shape
    if sc.group != "p1" {
        for g in ["p1", "p2"] {
            if sc.group != g {
                let mut c = sc.clone();
                c.group = g.into();
                out.push(c);
            }
        }
    }
    match &sc.shape {
        ShapeSpec::Polygon(n) if *n != 4 => {
            let mut c = sc.clone();
            c.shape = ShapeSpec::Polygon(4);
            out.push(c);
        }
        ShapeSpec::Trimer { .. } => {
            let mut c = sc.clone();
            c.shape = ShapeSpec::Circle;
            out.push(c);
        }
        _ => {}
    }
    out
}

pub fn state_hash<S: Crystal>(s: &S) -> u64 {
    let mut h = Hasher64::new();
    for b in basis_bits(s) {
        h.u64(b);
    }
    h.opt_f64(s.score());
    h.finish()
}

// ---------------------------------------------------------------------------------------------
// common bookkeeping for the E2 checks

use sim_core::driver::RunOut;

pub fn named_values<S: Crystal>(s: &S) -> Result<(J, Vec<(String, f64)>), String> {
    read_params_json(&to_json_text(s)?)
}

pub fn base_out<S: Crystal>(sc: &Scenario, ev: &ChainEvents<S>) -> Result<RunOut, String> {
    use std::f64::consts::PI;
    let mut out = RunOut::default();
    let mut h = Hasher64::new();
    h.u64(state_hash(&ev.initial));
    let mut clamp = 0u64;
    let mut head = J::arr();
    for b in &ev.boundaries {
        h.u64(b.op as u64);
        h.u64(state_hash(&b.after));
        for o in &b.obs {
            for (i, v) in &o.diff {
                h.u64(*i as u64);
                h.u64(*v);
            }
            h.opt_f64(o.score);
        }
        let (_, vals) = named_values(&b.after)?;
        for (n, v) in &vals {
            let hit = match n.as_str() {
                "cell.length" => *v == 0.01,
                "cell.ratio" => *v == 0.1,
                "cell.angle" => *v == PI / 6.0 || (*v == PI / 2.0 && sc.group.len() == 2),
                x if x.ends_with(".x") || x.ends_with(".y") => *v == 0.5 || *v == -0.5,
                _ => *v == 0.0 || *v == 2.0 * PI,
            };
            clamp += hit as u64;
        }
        if head.as_arr().map(|a| a.len()).unwrap_or(0) < 6 {
            head.push(
                J::obj()
                    .set("op", J::uint(b.op as u64))
                    .set("kind", J::str(b.kind))
                    .set("score_after", b.after.score().map(J::num).unwrap_or(J::Null))
                    .set("params_after", J::Arr(vals.iter().map(|(n, v)| J::Arr(vec![J::str(n.clone()), J::num(*v)])).collect())),
            );
        }
    }
    h.u64(ev.panic.is_some() as u64);
    out.hash = h.finish();
    out.sim_steps = ev.sim_steps;
    out.sample = Some(head);
    out.count("fault.F-clamp(parameters on a bound at a stage boundary)", clamp);
    out.count("fault.F-special(kept)", ev.specials_kept);
    out.count("fault.F-contact(a parameter bisected down to the edge of validity)", ev.contacts);
    out.count("fault.F-special(dropped: state became invalid)", ev.specials_dropped);
    out.count("fault.F-restart", ev.restarts);
    out.count("fault.F-outside(real state with a parameter rewritten outside its range)", ev.json_edits);
    out.count("probe.stage_panicked", ev.panic.is_some() as u64);
    out.count(&format!("probe.group/{}", sc.group), 1);
    out.count(
        &format!(
            "probe.shape/{}",
            match (&sc.shape, sc.lj) {
                (ShapeSpec::Polygon(_), _) => "polygon",
                (ShapeSpec::Radial(_), _) => "radial-polygon",
                (ShapeSpec::Circle, false) => "circle-hard",
                (ShapeSpec::Circle, true) => "circle-lj",
                (ShapeSpec::Trimer { .. }, false) => "trimer-hard",
                (ShapeSpec::Trimer { .. }, true) => "trimer-lj",
            }
        ),
        1,
    );
    let moved = ev.boundaries.iter().any(|b| b.kind == "stage" && basis_bits(&b.before) != basis_bits(&b.after));
    out.nontrivial = moved || clamp > 0 || ev.specials_kept > 0 || ev.contacts > 0 || ev.restarts > 0 || ev.json_edits > 0;
    Ok(out)
}
