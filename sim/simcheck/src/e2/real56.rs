//! C05 / C06 on real crystal states: the values behind generate_basis() are the "parameters"; the
//! same hypothesis tracker as in E1 explains each stage's history.

use super::*;
use crate::e1::tracker::{EdgeCtx, Trace};
use crate::with_state;
use sim_core::driver::{RunOut, Tier, Violation};

fn exec<S: Crystal>(initial: S, sc: &Scenario, which: &str) -> Result<RunOut, String> {
    let (ev, _) = run_chain(initial, &sc.chain, Box::new(NoMonitor), true)?;
    let mut out = base_out(sc, &ev)?;
    if which == "C06" {
        if let Some(w) = &ev.score_wrote {
            // the state between two steps is the proposal or the state before it: a score()
            // evaluation that rewrites a parameter puts something else there
            out.violate(Violation::new("parameter-changed-during-score", 0, format!("evaluating the state modified it: {}", w)));
        }
    }
    let mut acc = 0u64;
    let mut rej = 0u64;
    for b in &ev.boundaries {
        if b.kind != "stage" {
            continue;
        }
        let cfg = b.cfg.as_ref().unwrap();
        let x0_score = b.before.score();
        let tr = Trace::build(&b.x0, x0_score, &b.obs, Some(&b.ret));
        for r in tr.resolved_steps(x0_score).iter().flatten() {
            if !r.null {
                if r.accepted {
                    acc += 1
                } else {
                    rej += 1
                }
            }
        }
        out.count("probe.real_stage_histories", 1);
        if which == "C06" {
            if let Some(k) = tr.unexplained_at {
                out.violate(Violation::new(
                    "unexplained-observation",
                    k as u64,
                    format!("chain op {}: score() call {} saw parameters that are neither a one-parameter move from the previous proposal nor from the bit-exact pre-proposal state", b.op, k),
                ));
            } else if tr.complete() && !tr.final_ok.iter().any(|x| *x) {
                out.violate(Violation::new("returned-not-last-accepted", b.obs.len() as u64, format!("chain op {}: the returned crystal is neither the last accepted proposal nor the restored state", b.op)));
            } else if tr.complete() {
                let zero_kt = cfg.kt_start == 0.0;
                let res = tr.feasible(x0_score, |e: &EdgeCtx| {
                    if e.null {
                        return Ok(());
                    }
                    match (e.prop_score, e.parent_score) {
                        (None, _) if e.accepted => Err("it would have been accepted although it has no score".to_string()),
                        (Some(p), _) if !p.is_finite() && e.accepted => Err(format!("it would have been accepted although its score is {}", p)),
                        (Some(p), Some(c)) if p > c && !e.accepted => Err(format!("it would have been rejected although it is strictly better ({:e} > {:e})", p, c)),
                        (Some(p), Some(c)) if p < c && e.accepted && zero_kt => Err(format!("it would have been accepted at zero temperature although it is strictly worse ({:e} < {:e})", p, c)),
                        _ => Ok(()),
                    }
                });
                if let Err((k, why)) = res {
                    out.violate(Violation::new("returned-a-discarded-trial", k as u64, format!("chain op {}: the returned crystal can only be explained by treating the proposal of score() call {} differently from what the acceptance rule allows: {}", b.op, k, why)));
                }
                match b.after.score() {
                    Some(x) if x.is_finite() => {}
                    other => out.violate(Violation::new("returned-a-discarded-trial", b.obs.len() as u64, format!("chain op {}: the returned crystal's score is {:?}", b.op, other))),
                }
            }
        }
        if which == "C19" {
            // step bound on a real crystal: the allowed ranges are the declared ones (property C08's
            // list), with the length and ratio upper bounds taken at the start of the stage
            use std::f64::consts::PI;
            let names = basis_names(&b.before)?;
            let (_, vals) = named_values(&b.before)?;
            let get = |n: &str| vals.iter().find(|x| x.0 == n).map(|x| x.1);
            let len0 = get("cell.length").unwrap_or(1.0);
            let ratio0 = get("cell.ratio").unwrap_or(1.0);
            let ranges: Vec<Option<f64>> = names
                .iter()
                .map(|n| match n.as_str() {
                    "cell.length" => Some(len0 - 0.01),
                    "cell.ratio" => Some(ratio0 - 0.1),
                    "cell.angle" => Some(PI / 2.0 - PI / 6.0),
                    x if x.ends_with(".x") || x.ends_with(".y") => Some(1.0),
                    x if x.ends_with(".angle") => Some(2.0 * PI),
                    _ => None,
                })
                .collect();
            let max_step = cfg.max_step;
            let res = tr.feasible(x0_score, |e: &EdgeCtx| match e.mv {
                None => Ok(()),
                Some((j, from, to)) => match ranges.get(j as usize).copied().flatten() {
                    None => Ok(()),
                    Some(range) => {
                        let allowed = max_step * range.max(0.0) / 2.0;
                        let d = (to - from).abs();
                        if d <= allowed * (1.0 + 1e-9) + 1e-12 {
                            Ok(())
                        } else {
                            Err(format!(
                                "{} moved by {:e} (from {:e} to {:e}); allowed max_step_size*range/2 = {:e} (range {:e}, max_step_size {})",
                                names[j as usize], d, from, to, allowed, range, max_step
                            ))
                        }
                    }
                },
            });
            if let Err((k, why)) = res {
                if k < tr.steps.len() {
                    out.violate(Violation::new("step-too-large", k as u64, format!("real crystal, chain op {} proposal {}: {}", b.op, k, why)).sig("loop", "real"));
                }
            }
        }
        if which == "C05" && cfg.kt_start == 0.0 {
            out.count("probe.real_zero_kt_stages", 1);
            if let (Some(a), Some(c)) = (x0_score, b.after.score()) {
                if c < a {
                    out.violate(Violation::new("final-below-initial", b.op as u64, format!("chain op {}: kt_start = 0 but the stage returned score {:e} < input score {:e}", b.op, c, a)));
                }
            }
            let res = tr.feasible(x0_score, |e: &EdgeCtx| {
                if e.accepted && !e.null {
                    if let (Some(p), Some(c)) = (e.prop_score, e.parent_score) {
                        if p < c {
                            return Err(format!("a proposal scoring {:e} replaced a state scoring {:e} at zero temperature", p, c));
                        }
                    }
                }
                Ok(())
            });
            if let Err((k, why)) = res {
                out.violate(Violation::new("accepted-score-decreased", k as u64, format!("chain op {} score() call {}: {}", b.op, k, why)));
            }
        }
    }
    out.count("probe.resolved_accepts", acc);
    out.count("probe.resolved_rejects", rej);
    Ok(out)
}

pub fn gen(rng: &mut Rng, tier: Tier, which: &str) -> J {
    let max_steps = match tier {
        Tier::Quick => 500,
        Tier::Thorough => 1000,
    };
    let mut sc = gen_scenario(rng, false, false, true, 3, max_steps);
    if which == "C05" {
        for op in sc.chain.iter_mut() {
            if let Op::Stage(c) = op {
                c.kt_start = 0.0;
                let loops = *rng.pick(&[1u64, 2, 3, 10]);
                c.inner = (c.steps / loops).max(1);
            }
        }
    }
    if which != "C19" && rng.chance(0.3) {
        let at = rng.below(sc.chain.len() as u64) as usize;
        sc.chain.insert(at, Op::JsonEdit(rng.pick(&["x+1", "y-1", "angle-2pi", "angle+2pi", "cell-obtuse"]).to_string()));
    }
    sc.to_json().set("real_part", J::str(which))
}

pub fn execute(j: &J) -> Result<RunOut, String> {
    let sc = Scenario::from_json(j)?;
    let which = j.get("real_part").and_then(|x| x.as_str()).unwrap_or("C06").to_string();
    with_state!(&sc, exec, &sc, &which)
}

pub fn shrink(j: &J) -> Vec<J> {
    let which = j.get("real_part").cloned().unwrap_or(J::str("C06"));
    Scenario::from_json(j)
        .map(|s| shrink_scenario(&s).iter().map(|x| x.to_json().set("real_part", which.clone())).collect())
        .unwrap_or_default()
}
