//! E4 part of C20: the shipped binary under argument and file-namespace faults.

use sim_core::cliproc::{self, CliScenario, DISK_FAULTS};
use sim_core::driver::{RunOut, Tier, Violation};
use sim_core::json::{self, J};
use sim_core::prng::Rng;

pub const REAL: &[&str] = &["the shipped `packing` binary built from /repo with the hook guard off (RAYON_NUM_THREADS=1)", "the real file system namespace of a per-run scratch directory"];

pub fn gen_c20_e4(rng: &mut Rng, _tier: Tier) -> J {
    let mut sc = cliproc::gen_valid(rng);
    match rng.below(22) {
        0..=5 => {}
        6..=12 => sc.fault = rng.pick(&DISK_FAULTS).to_string(),
        13 => {
            sc.shape = "polygon".into();
            sc.trimer = None;
            sc.sides = Some(4);
            sc.potential = Some("LJ".into());
        }
        14 => {
            sc.shape = "polygon".into();
            sc.trimer = None;
            sc.potential = None;
            sc.sides = Some(*rng.pick(&[0i64, 1, 2, -1]));
        }
        15 => sc.replications = Some(0),
        16 => sc.steps = Some(0),
        17 => sc.inner_steps = Some(0),
        18 => sc.group = rng.pick(&["p3", "P1", "pg", ""]).to_string(),
        // "run until converged": the middle and last stage end after six loops, the first has 1000 steps
        20 | 21 => {
            sc.steps = Some(*rng.pick(&[u64::MAX, u64::MAX - 1, 1_000_000_000_000_000_000, 1 << 40]));
            sc.inner_steps = Some(*rng.pick(&[1u64, 10, 1000]));
            sc.convergence = Some(*rng.pick(&[f64::INFINITY, 1e300]));
        }
        19 if rng.chance(0.5) => sc.fault = "stale-output".into(),
        19 if rng.chance(0.5) => sc.fault = "start-config-other-group".into(),
        _ => sc.fault = "start-config-missing".into(),
    }
    sc.to_json().set("mode", J::str("cli"))
}

pub fn exec_c20_e4(j: &J) -> Result<RunOut, String> {
    let sc = CliScenario::from_json(j)?;
    let r = cliproc::run_cli(&sc)?;
    let mut out = RunOut::default();
    out.hash = r.hash();
    out.sim_steps = 1;
    out.sample = Some(r.sample());
    out.nontrivial = true;
    let disk = DISK_FAULTS.contains(&sc.fault.as_str());
    out.count(&format!("fault.F-disk/{}", sc.fault), disk as u64);
    out.count("fault.F-stale(output files existed before the run)", (sc.fault == "stale-output") as u64);
    out.count("fault.F-args", (!sc.valid_args() || sc.steps == Some(0) || sc.inner_steps == Some(0)) as u64);
    out.count("probe.cli_exit_zero", (r.code == Some(0)) as u64);
    out.count("probe.cli_exit_nonzero", (r.code != Some(0)) as u64);
    let panicked = r.stderr.contains("panicked at");
    match r.code {
        Some(0) => {
            let json_ok = r.json.as_ref().map(|b| std::str::from_utf8(b).ok().map(|t| json::parse(t).is_ok()).unwrap_or(false)).unwrap_or(false);
            if !r.json_is_regular || !r.svg_is_regular || !json_ok || r.svg.as_ref().map(|s| s.is_empty()).unwrap_or(true) {
                out.violate(Violation::new(
                    "exit-zero-without-output",
                    0,
                    format!(
                        "exit status 0 but output files are missing or unusable (json regular file: {}, parses: {}, svg regular file: {}); fault = {}; argv = {:?}",
                        r.json_is_regular, json_ok, r.svg_is_regular, sc.fault, r.argv
                    ),
                ).sig("fault", sc.fault.clone()));
            }
            if panicked {
                out.violate(Violation::new("panic", 0, format!("panic message on stderr although exit status is 0: {}", last_lines(&r.stderr))));
            }
        }
        Some(101) => {
            out.violate(
                Violation::new("panic", 0, format!("exit status 101 (panic): {} ; argv = {:?}", last_lines(&r.stderr), r.argv))
                    .sig("fault", sc.fault.clone()),
            );
        }
        Some(c) => {
            if panicked {
                out.violate(Violation::new("panic", 0, format!("panicked (exit {}): {}", c, last_lines(&r.stderr))));
            } else if !(r.stderr.contains("Error") || r.stderr.contains("error")) {
                out.violate(Violation::new("silent-failure", 0, format!("exit status {} without an error message; stderr = {:?}; argv = {:?}", c, last_lines(&r.stderr), r.argv)));
            }
            if sc.valid_args() && sc.fault == "none" {
                out.count("probe.valid_invocation_failed", 1);
            }
        }
        None => {
            out.violate(Violation::new("killed-by-signal", 0, format!("terminated by a signal; stderr = {}; argv = {:?}", last_lines(&r.stderr), r.argv)));
        }
    }
    Ok(out)
}

fn last_lines(s: &str) -> String {
    let v: Vec<&str> = s.lines().rev().take(3).collect();
    v.into_iter().rev().collect::<Vec<_>>().join(" | ")
}

pub fn shrink_c20_e4(j: &J) -> Vec<J> {
    let sc = match CliScenario::from_json(j) {
        Ok(s) => s,
        Err(_) => return vec![],
    };
    let mut out = vec![];
    macro_rules! drop_opt {
        ($f:ident) => {
            if sc.$f.is_some() {
                let mut c = sc.clone();
                c.$f = None;
                out.push(c.to_json().set("mode", J::str("cli")));
            }
        };
    }
    drop_opt!(kt_start);
    drop_opt!(kt_finish);
    drop_opt!(kt_ratio);
    drop_opt!(max_step_size);
    drop_opt!(convergence);
    drop_opt!(inner_steps);
    drop_opt!(trimer);
    drop_opt!(potential);
    if sc.replications.map(|r| r > 1).unwrap_or(true) {
        let mut c = sc.clone();
        c.replications = Some(1);
        out.push(c.to_json().set("mode", J::str("cli")));
    }
    if sc.steps.map(|s| s > 1).unwrap_or(true) {
        let mut c = sc.clone();
        c.steps = Some(1);
        out.push(c.to_json().set("mode", J::str("cli")));
    }
    if sc.group != "p1" && cliproc::GROUPS.contains(&sc.group.as_str()) {
        let mut c = sc.clone();
        c.group = "p1".into();
        out.push(c.to_json().set("mode", J::str("cli")));
    }
    if sc.shape != "circle" && sc.valid_args() {
        let mut c = sc.clone();
        c.shape = "circle".into();
        c.sides = None;
        c.trimer = None;
        out.push(c.to_json().set("mode", J::str("cli")));
    }
    out
}
