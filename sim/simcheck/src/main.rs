//! simcheck — driver for the checks that need no thread scheduler (engines E1, E2, E4).

mod e1;
mod e2;
mod e4;
mod props;

use sim_core::driver::{parse_options, run_check, Check};

fn pick(id: &str) -> Option<Box<dyn Check>> {
    match id {
        "C01" => Some(Box::new(e2::c01::C01)),
        "C04" => Some(Box::new(e2::c04::C04)),
        "C08" => Some(Box::new(e2::c08::C08)),
        "C11" => Some(Box::new(e2::c11::C11)),
        "C05" => Some(Box::new(props::C05)),
        "C06" => Some(Box::new(props::C06)),
        "C07" => Some(Box::new(e1::checks2::C07)),
        "C18" => Some(Box::new(e1::checks2::C18)),
        "C19" => Some(Box::new(props::C19)),
        "C20" => Some(Box::new(props::C20)),
        _ => None,
    }
}

/// A logger that formats every record and throws it away.  With the maximum level at Trace the
/// argument expressions of every debug!/trace! statement in the library are evaluated in every
/// simulated run, exactly as they are under `packing -vv` (with no logger installed the `log`
/// macros skip them altogether and whatever they do would never be seen).
struct DiscardLogger;
impl log::Log for DiscardLogger {
    fn enabled(&self, _: &log::Metadata) -> bool {
        true
    }
    fn log(&self, r: &log::Record) {
        let _ = format!("{}", r.args());
    }
    fn flush(&self) {}
}
static LOGGER: DiscardLogger = DiscardLogger;

fn main() {
    let _ = log::set_logger(&LOGGER);
    log::set_max_level(if std::env::var("VERIF_LOG_OFF").is_ok() { log::LevelFilter::Off } else { log::LevelFilter::Trace });
    let args: Vec<String> = std::env::args().skip(1).collect();
    let (id, opts) = match parse_options(&args) {
        Ok(x) => x,
        Err(e) => {
            eprintln!("HARNESS-ERROR {}", e);
            std::process::exit(2);
        }
    };
    let check = match pick(&id) {
        Some(c) => c,
        None => {
            eprintln!("HARNESS-ERROR unknown property {}", id);
            std::process::exit(2);
        }
    };
    let code = run_check(check.as_ref(), &opts);
    std::process::exit(code);
}
