//! Checks that combine several engines under one property id.

use crate::{e1, e2, e4};
use sim_core::driver::{Check, RunOut, Tier};
use sim_core::json::J;
use sim_core::prng::Rng;

fn engine_of(j: &J) -> &str {
    j.get("engine").and_then(|e| e.as_str()).unwrap_or("")
}

// ---------------------------------------------------------------------------------------------
pub struct C05;

impl Check for C05 {
    fn id(&self) -> &'static str {
        "C05"
    }
    fn rule(&self) -> String {
        "run i: kt_start = 0 crossed with kt_finish in {None,0,1e-3,10}, kt_ratio in {None,0,0.1,1}, 1..100 inner loops, step sizes 0..1, convergence None/0/1e-6, on scripted landscapes (peak/plateau/rugged with cliffs and holes, ties and invalid proposals included); every 10th run is instead a chain of 1..3 zero-temperature stages (1..10 inner loops) on a real hard or LJ crystal (all groups/shapes) with special-position writes and restarts between stages, its parameters being the values behind generate_basis(); all drawn from splitmix(VERIF_SEED,'C05',i). Non-trivial: accepted and rejected moves both present, or an invalid/clamped proposal fired. Distinct: distinct history hashes.".into()
    }
    fn runs(&self, tier: Tier) -> u64 {
        match tier {
            Tier::Quick => 60_000,
            Tier::Thorough => 2_000_000,
        }
    }
    fn generate(&self, rng: &mut Rng, tier: Tier, i: u64) -> J {
        // every 10th run is a chain of zero-temperature stages on a real crystal
        if i % 10 == 9 {
            e2::real56::gen(rng, tier, "C05")
        } else {
            e1::checks::gen_c05_e1(rng, tier)
        }
    }
    fn execute(&self, j: &J) -> Result<RunOut, String> {
        match engine_of(j) {
            "e1-landscape" => e1::checks::exec_c05_e1(j),
            "e2-crystal" => e2::real56::execute(j),
            other => Err(format!("unknown engine {}", other)),
        }
    }
    fn shrink(&self, j: &J) -> Vec<J> {
        match engine_of(j) {
            "e2-crystal" => e2::real56::shrink(j),
            _ => e1::checks::shrink_e1(j)
                .into_iter()
                .filter(|s| e1::checks::unscen(s).map(|(_, _, c)| c.kt_start == 0.0).unwrap_or(false))
                .collect(),
        }
    }
    fn components_real(&self) -> Vec<&'static str> {
        let mut v = e1::checks::REAL.to_vec();
        v.extend_from_slice(e2::REAL);
        v
    }
    fn components_stub(&self) -> Vec<&'static str> {
        e1::checks::STUB.to_vec()
    }
    fn assumptions(&self) -> Vec<String> {
        vec![
            "clause (i) is exact: returned.score() >= input.score() as f64".into(),
            "clause (ii): decisions are inferred from the parameter vectors seen by score(); a violation needs every explanation consistent with the whole history to contain an accepted strictly-worse move".into(),
        ]
    }
    fn expected_probes(&self) -> Vec<&'static str> {
        vec!["probe.multi_loop_runs", "probe.kt_finish_set", "fault.F-tie", "fault.F-invalid", "probe.real_zero_kt_stages"]
    }
}

// ---------------------------------------------------------------------------------------------
fn is_unbounded(j: &J) -> bool {
    j.get("mode").and_then(|m| m.as_str()) == Some("optimiser-unbounded")
}

pub struct C20;

impl Check for C20 {
    fn id(&self) -> &'static str {
        "C20"
    }
    fn level(&self) -> &'static str {
        "fault_enumeration"
    }
    fn rule(&self) -> String {
        "run i (optimiser part): steps x inner_steps from {0,1,2,3,7,10,100,1000,1050}^2 (plus random inner 1..40), temperatures {0,1e-3,0.1,5}, schedules, convergence {None,0,1e-9,1e-3,1e9}, every landscape kind; optimise_state under catch_unwind; runs with a convergence threshold are executed with their twin without it. Every 64th run ('run until converged', in a process of its own): steps in {2^64-1, 2^63, 1e18, 1e13, 2^40} with a threshold every loop meets (inf, 1e300): must equal the run of exactly six inner loops without a threshold, within a budget of 6*inner_steps+64 score() evaluations; a process that dies (allocation failure) or never returns is a violation. Every 8th run (CLI part): one execution of the shipped binary in a fresh scratch directory: a valid group/shape/potential/replication/step invocation from the swarm, combined with one fault from the finite list {none, ENOENT parent, ENOTDIR parent, EISDIR json, EISDIR svg, ENOSPC json, ENOSPC svg (/dev/full symlinks), polygon+LJ, sides<3, replications 0, steps 0, inner-steps 0, unknown group, missing start-config, valid start-config of another group, stale output files}. Non-trivial: a zero-length or inner>steps configuration, an early exit, a history with accepts and rejects, or any process execution. Distinct: distinct history hashes (process: exit status, normalised stderr, output bytes).".into()
    }
    fn runs(&self, tier: Tier) -> u64 {
        match tier {
            Tier::Quick => 32_000,
            Tier::Thorough => 800_000,
        }
    }
    fn generate(&self, rng: &mut Rng, tier: Tier, i: u64) -> J {
        // every 8th run is a process execution of the shipped binary
        if i % 8 == 7 {
            e4::gen_c20_e4(rng, tier)
        } else if i % 64 == 5 {
            // "run until converged": executed in a process of its own (see isolate_scenario)
            e1::checks2::gen_c20_unbounded(rng)
        } else {
            e1::checks2::gen_c20_e1(rng, tier)
        }
    }
    fn execute(&self, j: &J) -> Result<RunOut, String> {
        if is_unbounded(j) {
            return e1::checks2::exec_c20_unbounded(j);
        }
        match engine_of(j) {
            "e1-landscape" => e1::checks2::exec_c20_e1(j),
            "e4-cliproc" => e4::exec_c20_e4(j),
            other => Err(format!("unknown engine {}", other)),
        }
    }
    fn isolate_scenario(&self, j: &J) -> bool {
        is_unbounded(j)
    }
    fn child_death_class(&self, j: &J) -> Option<&'static str> {
        if is_unbounded(j) { Some("process-aborted") } else { None }
    }
    fn child_timeout_class(&self, j: &J) -> Option<&'static str> {
        if is_unbounded(j) { Some("no-early-exit") } else { None }
    }
    fn shrink(&self, j: &J) -> Vec<J> {
        if is_unbounded(j) {
            return e1::checks2::shrink_c20_e1(j)
                .into_iter()
                .map(|x| x.set("mode", J::str("optimiser-unbounded")))
                .filter(|x| e1::checks::unscen(x).map(|(_, _, c)| c.convergence.is_some() && c.kt_finish.is_none() && c.steps >= 6u64.saturating_mul(c.inner) && c.steps > 1 << 39).unwrap_or(false))
                .collect();
        }
        match engine_of(j) {
            "e4-cliproc" => e4::shrink_c20_e4(j),
            _ => e1::checks2::shrink_c20_e1(j),
        }
    }
    fn components_real(&self) -> Vec<&'static str> {
        let mut v = e1::checks::REAL.to_vec();
        v.extend_from_slice(e4::REAL);
        v
    }
    fn components_stub(&self) -> Vec<&'static str> {
        e1::checks::STUB.to_vec()
    }
    fn assumptions(&self) -> Vec<String> {
        vec![
            "score() evaluations = proposals + at most two bookkeeping evaluations (input check, final assertion); bounds are stated so that they are sound for 0, 1 or 2 of them".into(),
            "improvement per inner loop is computed from the twin run's hypothesis-resolved current scores; twin pairs where a loop boundary is unresolved are skipped and counted".into(),
        ]
    }
    fn expected_probes(&self) -> Vec<&'static str> {
        vec!["fault.F-zero", "probe.inner_gt_steps", "probe.non_multiple", "probe.early_exit", "fault.F-args", "fault.F-disk/enospc-json", "fault.F-disk/enospc-svg", "fault.F-disk/enoent", "fault.F-disk/enotdir", "fault.F-disk/eisdir-json", "fault.F-disk/eisdir-svg", "probe.cli_exit_zero", "probe.cli_exit_nonzero"]
    }
}

// ---------------------------------------------------------------------------------------------
pub struct C06;

impl Check for C06 {
    fn id(&self) -> &'static str {
        "C06"
    }
    fn rule(&self) -> String {
        let base = e1::checks::C06.rule();
        format!("{} Every 10th run is instead a chain of 1..3 optimisation stages on a real hard or LJ crystal (e2-crystal), tracked through the values behind generate_basis().", base)
    }
    fn runs(&self, tier: Tier) -> u64 {
        e1::checks::C06.runs(tier)
    }
    fn generate(&self, rng: &mut Rng, tier: Tier, i: u64) -> J {
        if i % 10 == 9 {
            e2::real56::gen(rng, tier, "C06")
        } else {
            e1::checks::C06.generate(rng, tier, i)
        }
    }
    fn execute(&self, j: &J) -> Result<RunOut, String> {
        match engine_of(j) {
            "e2-crystal" => e2::real56::execute(j),
            _ => e1::checks::C06.execute(j),
        }
    }
    fn shrink(&self, j: &J) -> Vec<J> {
        match engine_of(j) {
            "e2-crystal" => e2::real56::shrink(j),
            _ => e1::checks::C06.shrink(j),
        }
    }
    fn components_real(&self) -> Vec<&'static str> {
        let mut v = e1::checks::REAL.to_vec();
        v.extend_from_slice(e2::REAL);
        v
    }
    fn components_stub(&self) -> Vec<&'static str> {
        e1::checks::STUB.to_vec()
    }
    fn assumptions(&self) -> Vec<String> {
        e1::checks::C06.assumptions()
    }
    fn expected_probes(&self) -> Vec<&'static str> {
        let mut v = e1::checks::C06.expected_probes();
        v.push("probe.real_stage_histories");
        v
    }
}

// ---------------------------------------------------------------------------------------------
pub struct C19;

impl Check for C19 {
    fn id(&self) -> &'static str {
        "C19"
    }
    fn rule(&self) -> String {
        let base = e1::checks::C19.rule();
        format!("{} Every 10th run is instead a chain of 1..3 optimisation stages on a real hard or LJ crystal (e2-crystal): the values behind generate_basis() are tracked and every move is compared with max_step_size times half of the declared range of the parameter it belongs to (cell length [0.01, start], ratio [0.1, start], oblique angle [pi/6, pi/2], x, y [-1/2, 1/2], orientation [0, 2pi]).", base)
    }
    fn runs(&self, tier: Tier) -> u64 {
        e1::checks::C19.runs(tier)
    }
    fn generate(&self, rng: &mut Rng, tier: Tier, i: u64) -> J {
        if i % 10 == 9 {
            e2::real56::gen(rng, tier, "C19")
        } else {
            e1::checks::C19.generate(rng, tier, i)
        }
    }
    fn execute(&self, j: &J) -> Result<RunOut, String> {
        match engine_of(j) {
            "e2-crystal" => e2::real56::execute(j),
            _ => e1::checks::C19.execute(j),
        }
    }
    fn shrink(&self, j: &J) -> Vec<J> {
        match engine_of(j) {
            "e2-crystal" => e2::real56::shrink(j),
            _ => e1::checks::C19.shrink(j),
        }
    }
    fn components_real(&self) -> Vec<&'static str> {
        let mut v = e1::checks::REAL.to_vec();
        v.extend_from_slice(e2::REAL);
        v
    }
    fn components_stub(&self) -> Vec<&'static str> {
        e1::checks::STUB.to_vec()
    }
    fn assumptions(&self) -> Vec<String> {
        e1::checks::C19.assumptions()
    }
    fn expected_probes(&self) -> Vec<&'static str> {
        let mut v = e1::checks::C19.expected_probes();
        v.push("probe.real_stage_histories");
        v
    }
}
