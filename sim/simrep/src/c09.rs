//! C09 — same seed, same answer, whatever the threads do.

use crate::pipeline::*;
use rayon::sim::SimConfig;
use sim_core::driver::{Check, RunOut, Tier, Violation};
use sim_core::json::J;
use sim_core::prng::{Hasher64, Rng};

pub struct C09;

fn exec_cli_threads(j: &J) -> Result<RunOut, String> {
    use sim_core::cliproc::{self, CliScenario};
    let mut sc = CliScenario::from_json(j)?;
    let mut out = RunOut::default();
    sc.threads = 1;
    let reference = cliproc::run_cli(&sc)?;
    out.hash = reference.hash();
    out.nontrivial = true;
    out.sim_steps = 1;
    out.sample = Some(reference.sample());
    out.count("probe.cli_real_rayon_executions", 1);
    // the same arguments once more into a directory where longer output files of an earlier run
    // are already present: the output must be a function of the arguments only
    {
        let mut st = sc.clone();
        st.fault = "stale-output".into();
        let r = cliproc::run_cli(&st)?;
        out.count("fault.F-stale(output files existed before the run)", 1);
        if reference.code == Some(0) && (r.code != reference.code || r.json != reference.json || r.svg != reference.svg) {
            out.violate(Violation::new(
                "cli-output-depends-on-existing-files",
                0,
                format!(
                    "with older, longer output files already present at the --outfile path the binary left different bytes behind than in an empty directory (json {} vs {} bytes, svg {} vs {} bytes); argv {:?}",
                    r.json.as_ref().map(|b| b.len()).unwrap_or(0), reference.json.as_ref().map(|b| b.len()).unwrap_or(0),
                    r.svg.as_ref().map(|b| b.len()).unwrap_or(0), reference.svg.as_ref().map(|b| b.len()).unwrap_or(0), r.argv
                ),
            ));
        }
    }
    // ... and where the files of an earlier, longer run of the same kind of structure lie
    if reference.code == Some(0) && sc.valid_args() && sc.steps.unwrap_or(100) <= 1000 {
        let mut st = sc.clone();
        st.fault = "stale-earlier-result".into();
        let r = cliproc::run_cli(&st)?;
        out.count("fault.F-stale(the result of an earlier, longer run lay at the output path)", 1);
        if r.code != reference.code || r.json != reference.json || r.svg != reference.svg {
            out.violate(Violation::new(
                "cli-output-depends-on-existing-files",
                1,
                format!(
                    "with the result of an earlier, longer run already at the --outfile path the binary left other bytes behind than in an empty directory (final score {:?} vs {:?}); argv {:?}",
                    r.final_score_text, reference.final_score_text, r.argv
                ),
            ));
        }
    }
    for (k, t) in [1u64, 2, 4, 16].iter().enumerate() {
        sc.threads = *t;
        let r = cliproc::run_cli(&sc)?;
        out.count("probe.cli_real_rayon_executions", 1);
        if r.code != reference.code || r.json != reference.json || r.svg != reference.svg {
            let class = if *t == 1 { "cli-repeat-differs" } else { "cli-output-depends-on-thread-count" };
            out.violate(Violation::new(
                class,
                k as u64,
                format!(
                    "the shipped binary with RAYON_NUM_THREADS={} wrote different output than with 1 thread for the same arguments: final score {:?} vs {:?} (exit {:?} vs {:?}); argv {:?}",
                    t, r.final_score_text, reference.final_score_text, r.code, reference.code, r.argv
                ),
            ));
        }
    }
    Ok(out)
}

fn sched_of(j: &J) -> Sched {
    let seed = j.get("sched_seed").and_then(|x| x.as_u64()).unwrap_or(0);
    match j.get("scheduler").and_then(|x| x.as_str()) {
        Some("pct") => Sched::Pct(seed, j.get("pct_depth").and_then(|x| x.as_u64()).unwrap_or(2) as usize),
        _ => Sched::Random(seed),
    }
}

pub fn add_stats(out: &mut RunOut, st: &rayon::sim::SimStats) {
    out.count("fault.F-sched(pre-emptions injected at SharedValue accesses)", st.yields);
    out.count("probe.shared_value_accesses_observed", st.accesses);
    out.count("probe.replica_tasks_run", st.tasks);
    out.count("probe.steals_from_back", st.steals_from_back);
    out.count("probe.result_handoffs_across_tasks", st.handoffs);
    out.count("probe.reduction_tree_depth_ge2", (st.tree_depth >= 2) as u64);
    out.count("probe.reduction_tree_depth_ge3", (st.tree_depth >= 3) as u64);
    out.count("probe.executions_with_ge2_active_workers", (st.workers_that_ran_items >= 2) as u64);
    out.count("fault.F-subset(items withheld from the pipeline)", st.items_dropped);
    out.count("fault.F-shortwrite(file writes cut short by the simulated file)", st.short_writes);
}

impl Check for C09 {
    fn id(&self) -> &'static str {
        "C09"
    }
    fn rule(&self) -> String {
        "scenario i: group x shape x potential x optimiser settings x R = 1..4 (quick) / 1..6 (thorough) replicas, W = 1..16 simulated workers, pre-emption gap in {never, 1000, 100, 10} SharedValue accesses, scheduler uniform-random or PCT depth 1..3, K seeded schedules; every 8th scenario instead runs the shipped binary (real rayon) with RAYON_NUM_THREADS = 1, 1, 2, 4, 16 and compares bytes; all from splitmix(VERIF_SEED,'C09',i). Per scenario: one reference execution (1 worker, index order, no pre-emption), K scheduled executions (each rebuilds the input from the arguments = restart), R single-index deliveries and 2 subset deliveries; output bytes are compared. Non-trivial: at least one execution had >= 2 active workers or an injected pre-emption. Distinct: hash of the scenario's outputs together with the schedule statistics (accesses, pre-emptions, steals, tree depth).".into()
    }
    fn runs(&self, tier: Tier) -> u64 {
        match tier {
            Tier::Quick => 160,
            Tier::Thorough => 12_000,
        }
    }
    fn budget_s(&self, tier: Tier) -> f64 {
        match tier {
            Tier::Quick => 120.0,
            Tier::Thorough => 1500.0,
        }
    }
    fn nondeterminism_is_violation(&self) -> bool {
        true
    }
    fn isolate(&self) -> bool {
        // process-global state of the code under test (statics, caches) must look to every
        // scenario the way it looks to a replay of its file: a fresh process
        true
    }
    fn generate(&self, rng: &mut Rng, tier: Tier, i: u64) -> J {
        if i % 8 == 7 {
            // process level: the shipped binary on real rayon with 1, 2, 4 and 16 threads.  Real
            // scheduling is not controlled, so this part can only ever *add* a violation that shows
            // up as different bytes; the deciding exploration is the simulated part.
            let mut sc = sim_core::cliproc::gen_valid(rng);
            sc.replications = Some(*rng.pick(&[2u64, 3, 5, 8]));
            sc.steps = Some(*rng.pick(&[20u64, 100, 200]));
            return sc.to_json().set("mode", J::str("cli-threads"));
        }
        let max_r = match tier {
            Tier::Quick => 4,
            Tier::Thorough => 6,
        };
        let mut sc = gen_rep_scenario(rng, max_r);
        // "wide near-tie" scenarios: many replicas that finish within 1e-6 .. 1e-4 of each other, so
        // that a reduction which is not associative (tolerances, partial orders) sees many different
        // trees over nearly equal candidates
        let wide = rng.chance(0.12);
        if wide {
            sc.replicas = *rng.pick(&[12u64, 16, 24, 32]);
            sc.lj = false;
            sc.shape = rng.pick(&["circle", "polygon"]).to_string();
            sc.steps = *rng.pick(&[5u64, 20]);
            sc.inner_steps = 1000;
            sc.kt_start = *rng.pick(&[0.0, 1e-4]);
            sc.max_step_size = *rng.pick(&[1e-6, 3e-6, 1e-5, 3e-5, 1e-4]);
            sc.convergence = None;
        }
        sc.to_json()
            .set("workers", J::uint(*rng.pick(&[1u64, 2, 2, 3, 4, 8, 16])))
            .set("yield_gap", J::uint(*rng.pick(&[0u64, 1000, 1000, 100, 10])))
            .set("max_leaf", J::uint(*rng.pick(&[0u64, 1, 1, 2])))
            .set("scheduler", J::str(*rng.pick(&["random", "random", "pct"])))
            .set("pct_depth", J::uint(rng.range_u64(1, 3)))
            .set("sched_seed", J::uint(rng.below(1 << 40)))
            .set("schedules", J::uint(match (tier, wide) {
                (Tier::Quick, false) => 4,
                (Tier::Quick, true) => 12,
                (Tier::Thorough, false) => 8,
                (Tier::Thorough, true) => 32,
            }))
            .set("subset_seed", J::uint(rng.below(1 << 40)))
    }
    fn execute(&self, j: &J) -> Result<RunOut, String> {
        // executions in which the simulator itself ran out of resources decide nothing
        let mut out = self.execute_inner(j)?;
        let before = out.violations.len();
        out.violations.retain(|v| !(v.class == "pipeline-panicked" && v.detail.contains("SIMULATOR-RESOURCES")));
        let dropped = (before - out.violations.len()) as u64;
        out.count("probe.executions_dropped_simulator_out_of_resources", dropped);
        Ok(out)
    }
    fn shrink(&self, j: &J) -> Vec<J> {
        let mut out = vec![];
        if j.get("mode").and_then(|m| m.as_str()) == Some("cli-threads") {
            return out;
        }
        let sc = match RepScenario::from_json(j) {
            Ok(s) => s,
            Err(_) => return out,
        };
        let extras = |base: J| -> J {
            let mut b = base;
            for k in ["workers", "yield_gap", "max_leaf", "scheduler", "pct_depth", "sched_seed", "schedules", "subset_seed"] {
                if let Some(v) = j.get(k) {
                    b.put(k, v.clone());
                }
            }
            b
        };
        if sc.replicas > 1 {
            let mut c = sc.clone();
            c.replicas -= 1;
            out.push(extras(c.to_json()));
        }
        if sc.steps > 10 {
            let mut c = sc.clone();
            c.steps /= 2;
            out.push(extras(c.to_json()));
        }
        for (k, v) in [("workers", 2u64), ("yield_gap", 0), ("schedules", 1)] {
            if j.get(k).and_then(|x| x.as_u64()) != Some(v) {
                out.push(extras(sc.to_json()).set(k, J::uint(v)));
            }
        }
        if sc.group != "p1" {
            let mut c = sc.clone();
            c.group = "p1".into();
            out.push(extras(c.to_json()));
        }
        out
    }
    fn components_real(&self) -> Vec<&'static str> {
        REAL.to_vec()
    }
    fn components_stub(&self) -> Vec<&'static str> {
        STUB.to_vec()
    }
    fn assumptions(&self) -> Vec<String> {
        vec![
            "rayon is replaced by sim-rayon: results say nothing about rayon's own implementation, only about what the pipeline does under any splitting, stealing, completion order and pre-emption the rayon API allows".into(),
            "schedules are sampled (shuttle RandomScheduler / PCT), not enumerated; pre-emption points are SharedValue accesses, worker/deque operations and item boundaries".into(),
            "the reference is the same real analyse_state run with one worker in index order - not a re-implementation of the stage recipe".into(),
            "every 8th scenario runs the shipped binary on real rayon with 1, 1, 2, 4 and 16 threads and compares bytes; its scheduling is not controlled, so a clean result there decides nothing (sanity cross-check of the stub)".into(),
            "the access monitor treats replica items as mutually concurrent whatever the actual schedule was: a parameter cell touched by two items with at least one write is reported".into(),
        ]
    }
    fn expected_probes(&self) -> Vec<&'static str> {
        vec![
            "fault.F-sched(pre-emptions injected at SharedValue accesses)",
            "probe.steals_from_back",
            "probe.reduction_tree_depth_ge2",
            "probe.executions_with_ge2_active_workers",
            "fault.F-subset(items withheld from the pipeline)",
            "probe.result_handoffs_across_tasks",
        ]
    }
}

impl C09 {
    fn execute_inner(&self, j: &J) -> Result<RunOut, String> {
        if j.get("mode").and_then(|m| m.as_str()) == Some("cli-threads") {
            return exec_cli_threads(j);
        }
        let sc = RepScenario::from_json(j)?;
        let workers = j.get("workers").and_then(|x| x.as_u64()).unwrap_or(2) as usize;
        let yield_gap = j.get("yield_gap").and_then(|x| x.as_u64()).unwrap_or(0);
        let max_leaf = j.get("max_leaf").and_then(|x| x.as_u64()).unwrap_or(0) as usize;
        let k = j.get("schedules").and_then(|x| x.as_u64()).unwrap_or(4) as usize;
        let sched = sched_of(j);
        let mut out = RunOut::default();
        let mut h = Hasher64::new();
        let mut viol: Vec<Violation> = vec![];

        // 1. reference execution
        let reference = match run_pipeline(&sc, &reference_cfg(), &Sched::Random(0), 1) {
            Ok(mut v) => v.pop().ok_or("no reference result")?,
            Err(p) => {
                out.violate(Violation::new("pipeline-panicked", 0, format!("reference execution (1 worker, index order) panicked: {}", p)));
                return Ok(out);
            }
        };
        if let Some(e) = &reference.error {
            if e.starts_with("HARNESS") {
                return Err(e.clone());
            }
        }
        h.u64(reference.hash());
        out.sim_steps += sc.replicas * (1000 + 2 * sc.steps);
        out.count("fault.F-stale(output files existed before the run)", sc.stale_output as u64);
        out.count("probe.wide_near_tie_scenarios(replicas >= 12)", (sc.replicas >= 12) as u64);
        out.sample = Some(
            J::obj()
                .set("reference_json_bytes", J::uint(reference.json.as_ref().map(|b| b.len()).unwrap_or(0) as u64))
                .set("reference_final_score", reference.final_score_log.clone().map(J::str).unwrap_or(J::Null))
                .set("reference_error", reference.error.clone().map(J::str).unwrap_or(J::Null)),
        );
        if !reference.input_unchanged {
            viol.push(Violation::new("original-state-changed", 0, "the input state's serialisation changed while its clones were optimised (reference execution)".to_string()));
        }
        // 1b. repeat: the very same execution once more in this process.  If it differs the code
        // under test is not a function of its inputs; nothing else can be compared meaningfully, and
        // the run's hash is taken from the scenario alone so that a replay (which will see other
        // random outputs) still reproduces the violation exactly.
        match run_pipeline(&sc, &reference_cfg(), &Sched::Random(0), 1) {
            Ok(mut v) => {
                let again = v.pop().ok_or("no repeat result")?;
                if again.json != reference.json || again.svg != reference.svg || again.error != reference.error {
                    let mut hh = Hasher64::new();
                    hh.bytes(j.to_string().as_bytes());
                    out.hash = hh.finish();
                    out.nontrivial = true;
                    out.violate(Violation::new(
                        "repeat-differs",
                        0,
                        format!(
                            "two identical executions (1 worker, index order, same arguments) in one process wrote different output: final score {:?} then {:?}",
                            reference.final_score_log, again.final_score_log
                        ),
                    ));
                    return Ok(out);
                }
            }
            Err(p) => {
                out.violate(Violation::new("pipeline-panicked", 0, format!("repeated reference execution panicked: {}", p)));
                return Ok(out);
            }
        }

        // 2. scheduled executions
        let cfg = SimConfig { workers, reference: false, yield_gap, deliver: None, deliver_expect: 0, max_leaf };
        match run_pipeline(&sc, &cfg, &sched, k) {
            Err(p) => viol.push(Violation::new("pipeline-panicked", 0, format!("execution with {} workers under {:?} panicked: {}", workers, sched, p))),
            Ok(results) => {
                let mut active = false;
                for (it, r) in results.iter().enumerate() {
                    h.u64(r.hash());
                    h.u64(r.stats.accesses);
                    h.u64(r.stats.yields);
                    h.u64(r.stats.steals_from_back);
                    h.u64(r.stats.tree_depth);
                    add_stats(&mut out, &r.stats);
                    out.sim_steps += sc.replicas * (1000 + 2 * sc.steps);
                    if r.stats.workers_that_ran_items >= 2 || r.stats.yields > 0 {
                        active = true;
                    }
                    if r.json != reference.json || r.svg != reference.svg || r.error != reference.error {
                        viol.push(Violation::new(
                            "schedule-dependent-output",
                            it as u64,
                            format!(
                                "schedule {} of {:?} with {} workers (pre-emption gap {}) wrote different output than the 1-worker reference: final score {:?} vs {:?}, error {:?} vs {:?}",
                                it, sched, workers, yield_gap, r.final_score_log, reference.final_score_log, r.error, reference.error
                            ),
                        ));
                    }
                    if !r.input_unchanged {
                        viol.push(Violation::new("original-state-changed", it as u64, format!("schedule {}: the input state's serialisation changed while its clones were optimised", it)));
                    }
                    if let Some((id, a, b, w)) = r.stats.races.first() {
                        viol.push(Violation::new(
                            "cross-replica-access",
                            it as u64,
                            format!("schedule {}: parameter cell #{} is shared between replica {} and replica {} ({}): clones are not independent", it, id, a, b, if *w { "second access writes" } else { "first owner wrote" }),
                        ));
                    }
                }
                out.nontrivial = active;
            }
        }

        // 3. single-index deliveries: the result of replica i alone, from the real code
        if sc.replicas >= 2 && reference.error.is_none() {
            let mut singles: Vec<PipeResult> = vec![];
            for i in 0..sc.replicas as usize {
                let c = SimConfig { workers: 1, reference: true, yield_gap: 0, deliver: Some(vec![i]), deliver_expect: sc.replicas as usize, max_leaf: 0 };
                match run_pipeline(&sc, &c, &Sched::Random(0), 1) {
                    Ok(mut v) => {
                        let r = v.pop().ok_or("no single result")?;
                        add_stats(&mut out, &r.stats);
                        h.u64(r.hash());
                        singles.push(r);
                    }
                    Err(p) => {
                        viol.push(Violation::new("pipeline-panicked", i as u64, format!("single-index delivery of replica {} panicked: {}", i, p)));
                        break;
                    }
                }
            }
            let applicable = singles.iter().all(|s| s.stats.subset_not_applicable == 0);
            if !applicable {
                // the pipeline's first parallel iterator is not over the replica indices: "replica i
                // alone" cannot be produced this way, and nothing is concluded from the attempt
                out.count("probe.single_index_delivery_not_applicable", 1);
            }
            if applicable && singles.len() == sc.replicas as usize {
                if !singles.iter().any(|s| s.json == reference.json && s.svg == reference.svg) {
                    viol.push(Violation::new(
                        "replica-result-depends-on-others",
                        0,
                        "the full run's output equals none of the outputs obtained by running each replica index alone: a replica's result depends on which other replicas ran before or with it".to_string(),
                    ));
                }
                // subset deliveries under the scheduled configuration
                let mut rng = Rng::new(j.get("subset_seed").and_then(|x| x.as_u64()).unwrap_or(1));
                for t in 0..2u64 {
                    let mut d: Vec<usize> = (0..sc.replicas as usize).filter(|_| rng.chance(0.6)).collect();
                    if d.is_empty() {
                        d.push(rng.below(sc.replicas) as usize);
                    }
                    let c = SimConfig { workers, reference: false, yield_gap, deliver: Some(d.clone()), deliver_expect: sc.replicas as usize, max_leaf };
                    match run_pipeline(&sc, &c, &Sched::Random(rng.next_u64() >> 20), 1) {
                        Ok(mut v) => {
                            if let Some(r) = v.pop() {
                                add_stats(&mut out, &r.stats);
                                h.u64(r.hash());
                                if !d.iter().any(|i| singles[*i].json == r.json && singles[*i].svg == r.svg) {
                                    viol.push(Violation::new(
                                        "replica-result-depends-on-others",
                                        t,
                                        format!("delivering only replicas {:?} wrote an output that equals none of those replicas' own results", d),
                                    ));
                                }
                            }
                        }
                        Err(p) => viol.push(Violation::new("pipeline-panicked", t, format!("subset delivery {:?} panicked: {}", d, p))),
                    }
                }
            }
        }
        out.hash = h.finish();
        for v in viol {
            out.violate(v);
        }
        Ok(out)
    }
}
