//! C10 — the CLI writes the best replica, labelled with what was asked for.
//!
//! E3 part: per-replica results from the real pipeline (single-index delivery) vs what the full
//! run writes under varying reduction trees and completion orders.  E4 part: the shipped binary's
//! output labels.

use crate::c09::add_stats;
use crate::pipeline::*;
use rayon::sim::SimConfig;
use sim_core::cliproc::{self, CliScenario};
use sim_core::driver::{Check, RunOut, Tier, Violation};
use sim_core::json::{self, J};
use sim_core::prng::{Hasher64, Rng};

pub struct C10;

fn family_of(group: &str) -> &'static str {
    match group {
        "p1" | "p2" => "Monoclinic",
        _ => "Orthorhombic",
    }
}
fn order_of(group: &str) -> usize {
    match group {
        "p1" => 1,
        "p2" | "p1m1" | "p1g1" => 2,
        _ => 4,
    }
}

fn rel_close(a: f64, b: f64) -> bool {
    a == b || (a - b).abs() <= 1e-12 * a.abs().max(b.abs()).max(1e-300)
}

fn exec_e3(j: &J) -> Result<RunOut, String> {
    let sc = RepScenario::from_json(j)?;
    let kmax = sc.replicas;
    let workers = j.get("workers").and_then(|x| x.as_u64()).unwrap_or(2) as usize;
    let yield_gap = j.get("yield_gap").and_then(|x| x.as_u64()).unwrap_or(0);
    let mut seeds = Rng::new(j.get("sched_seed").and_then(|x| x.as_u64()).unwrap_or(0));
    let mut out = RunOut::default();
    let mut h = Hasher64::new();
    // per-replica results r_i through single-index delivery (real code, one replica at a time)
    let mut scores: Vec<f64> = vec![];
    // false once the pipeline turns out not to iterate over the replica indices (per-replica
    // results are then unavailable and only the clauses that do not need them are decided)
    let mut alone_available = true;
    for i in 0..kmax as usize {
        let c = SimConfig { workers: 1, reference: true, yield_gap: 0, deliver: Some(vec![i]), deliver_expect: sc.replicas as usize, max_leaf: 0 };
        let r = match run_pipeline(&sc, &c, &Sched::Random(0), 1) {
            Ok(mut v) => v.pop().ok_or("no single result")?,
            Err(p) => {
                out.violate(Violation::new("pipeline-panicked", i as u64, format!("running replica {} alone panicked: {}", i, p)));
                return Ok(out);
            }
        };
        if r.stats.subset_not_applicable > 0 {
            alone_available = false;
            out.count("probe.single_index_delivery_not_applicable", 1);
            break;
        }
        if let Some(e) = &r.error {
            if e.starts_with("HARNESS") {
                return Err(e.clone());
            }
            out.violate(Violation::new("pipeline-error", i as u64, format!("running replica {} alone failed: {}", i, e)));
            return Ok(out);
        }
        add_stats(&mut out, &r.stats);
        h.u64(r.hash());
        let js = r.json.as_ref().ok_or("single run wrote no json")?;
        let loaded = match score_of_json(&sc, js) {
            Ok(x) => x,
            Err(e) => {
                out.violate(Violation::new("written-structure-invalid", i as u64, format!("the structure written for replica {} alone cannot be loaded: {}", i, e)));
                return Ok(out);
            }
        };
        match loaded {
            Some(s) => scores.push(s),
            None => {
                out.violate(Violation::new("written-structure-invalid", i as u64, format!("the structure written for replica {} alone has no score", i)));
                return Ok(out);
            }
        }
    }
    out.count("probe.replicas_with_negative_score", scores.iter().filter(|s| **s < 0.0 || (**s == 0.0 && s.is_sign_negative())).count() as u64);
    out.count("probe.scenarios_mixing_negative_and_positive_scores", (scores.iter().any(|s| *s < 0.0) && scores.iter().any(|s| *s > 0.0)) as u64);
    let mut prev_best = f64::NEG_INFINITY;
    let mut tie_or_order_sensitive = false;
    for k in 1..=kmax {
        let mut sck = sc.clone();
        sck.replicas = k;
        let cfg = SimConfig { workers, reference: false, yield_gap, deliver: None, deliver_expect: 0, max_leaf: (seeds.below(3)) as usize };
        let sched = if seeds.chance(0.3) { Sched::Pct(seeds.next_u64() >> 20, 2) } else { Sched::Random(seeds.next_u64() >> 20) };
        let r = match run_pipeline(&sck, &cfg, &sched, 1) {
            Ok(mut v) => v.pop().ok_or("no result")?,
            Err(p) => {
                out.violate(Violation::new("pipeline-panicked", k, format!("{} replications under {:?} panicked: {}", k, sched, p)));
                break;
            }
        };
        add_stats(&mut out, &r.stats);
        h.u64(r.hash());
        out.sim_steps += k * (1000 + 2 * sc.steps);
        if r.stats.workers_that_ran_items >= 2 {
            tie_or_order_sensitive = true;
        }
        if let Some(e) = &r.error {
            out.violate(Violation::new("pipeline-error", k, format!("{} replications failed: {}", k, e)));
            break;
        }
        let (js, sv) = match (&r.json, &r.svg) {
            (Some(a), Some(b)) => (a, b),
            _ => {
                out.violate(Violation::new("output-file-missing", k, format!("{} replications: pipeline returned Ok but json present: {}, svg present: {}", k, r.json.is_some(), r.svg.is_some())));
                break;
            }
        };
        let _ = sv;
        let loaded = match score_of_json(&sck, js) {
            Ok(x) => x,
            Err(e) => {
                out.violate(Violation::new("written-structure-invalid", k, format!("{} replications: the written structure cannot be loaded: {}", k, e)));
                break;
            }
        };
        let written = match loaded {
            Some(s) => s,
            None => {
                out.violate(Violation::new("written-structure-invalid", k, format!("{} replications: the written structure has no score", k)));
                break;
            }
        };
        let best = if alone_available { scores[..k as usize].iter().cloned().fold(f64::NEG_INFINITY, f64::max) } else { written };
        if alone_available && !rel_close(written, best) {
            out.violate(Violation::new(
                "not-the-best-replica",
                k,
                format!(
                    "{} replications ({} workers, {:?}): the written structure scores {:e} but the best of replicas 0..{} (each run alone through the same code) scores {:e}; per-replica scores {:?}",
                    k, workers, sched, written, k - 1, best, &scores[..(k as usize).min(scores.len())]
                ),
            ));
        }
        if written < prev_best && !rel_close(written, prev_best) {
            out.violate(Violation::new("score-decreased-with-more-replications", k, format!("{} replications scored {:e}, fewer replications scored {:e}", k, written, prev_best)));
        }
        prev_best = prev_best.max(written);
        match r.final_score_log.as_ref().and_then(|t| t.parse::<f64>().ok()) {
            Some(logged) => {
                if !rel_close(logged, written) {
                    out.violate(Violation::new("logged-score-differs", k, format!("{} replications: logged 'Final score: {:e}' but the written structure scores {:e}", k, logged, written)));
                }
            }
            None => out.violate(Violation::new("logged-score-missing", k, format!("{} replications: no parsable 'Final score' record (got {:?})", k, r.final_score_log))),
        }
    }
    out.hash = h.finish();
    out.nontrivial = kmax >= 2 && tie_or_order_sensitive;
    out.sample = Some(J::obj().set("per_replica_scores", J::Arr(scores.iter().map(|s| J::num(*s)).collect())));
    out.count("probe.prefix_runs", kmax);
    Ok(out)
}

/// prefix-monotonicity of the shipped binary at replication counts the simulator cannot afford:
/// the same arguments with k1 < k2 replications (around and beyond the default of 100); the
/// larger run must not score lower
fn exec_e4_pair(j: &J) -> Result<RunOut, String> {
    let mut sc = CliScenario::from_json(j)?;
    let k1 = j.get("k1").and_then(|x| x.as_u64()).ok_or("k1")?;
    let k2 = j.get("k2").and_then(|x| x.as_u64()).ok_or("k2")?;
    let mut out = RunOut::default();
    out.nontrivial = true;
    out.sim_steps = 2;
    out.count("probe.cli_prefix_pairs(replications up to 200)", 1);
    let mut h = Hasher64::new();
    let mut scores: Vec<f64> = vec![];
    for k in [k1, k2] {
        sc.replications = Some(k);
        let r = cliproc::run_cli(&sc)?;
        h.u64(r.hash());
        if r.code != Some(0) {
            out.count("probe.cli_run_failed", 1);
            out.hash = h.finish();
            return Ok(out);
        }
        match r.final_score_text.as_ref().and_then(|t| t.parse::<f64>().ok()) {
            Some(x) => scores.push(x),
            None => {
                out.violate(Violation::new("logged-score-missing", k, format!("{} replications: no parsable 'Final score' line: {:?}", k, r.final_score_text)));
                out.hash = h.finish();
                return Ok(out);
            }
        }
    }
    out.hash = h.finish();
    if scores[1] < scores[0] && !rel_close(scores[1], scores[0]) {
        out.violate(Violation::new(
            "score-decreased-with-more-replications",
            k2,
            format!("the shipped binary scored {:e} with {} replications and {:e} with {} (same other arguments)", scores[0], k1, scores[1], k2),
        ));
    }
    Ok(out)
}

fn gen_e4(rng: &mut Rng) -> J {
    if rng.chance(0.05) {
        let mut sc = cliproc::gen_valid(rng);
        sc.steps = Some(*rng.pick(&[1u64, 20]));
        sc.convergence = None;
        sc.verbosity = 0;
        let (k1, k2) = *rng.pick(&[(100u64, 101u64), (100, 120), (64, 128), (99, 200), (7, 100)]);
        return sc.to_json().set("mode", J::str("prefix-pair")).set("k1", J::uint(k1)).set("k2", J::uint(k2));
    }
    let mut sc = cliproc::gen_valid(rng);
    sc.replications = Some(*rng.pick(&[1u64, 2, 5]));
    sc.steps = Some(*rng.pick(&[1u64, 20, 100]));
    sc.convergence = None;
    // a third of the label runs are handed a valid start configuration of another group
    if rng.chance(0.33) && sc.valid_args() {
        sc.fault = "start-config-other-group".into();
    } else if rng.chance(0.25) {
        // longer files of an earlier run lie at the output path
        sc.fault = "stale-output".into();
    }
    sc.to_json().set("mode", J::str("labels"))
}

fn exec_e4(j: &J) -> Result<RunOut, String> {
    let sc = CliScenario::from_json(j)?;
    let r = cliproc::run_cli(&sc)?;
    let mut out = RunOut::default();
    out.hash = r.hash();
    out.sim_steps = 1;
    out.nontrivial = true;
    out.sample = Some(r.sample());
    out.count(&format!("probe.cli_group/{}", sc.group), 1);
    out.count("fault.F-args(start configuration of another group supplied)", (sc.fault == "start-config-other-group") as u64);
    out.count("fault.F-stale(output files existed before the run)", (sc.fault == "stale-output") as u64);
    out.count(&format!("probe.cli_shape/{}", sc.shape), 1);
    if r.code != Some(0) {
        // success/failure of the process is C20's subject; without output there is nothing to label
        out.count("probe.cli_run_failed", 1);
        return Ok(out);
    }
    let text = match r.json.as_ref().and_then(|b| std::str::from_utf8(b).ok()) {
        Some(t) => t.to_string(),
        None => {
            out.count("probe.cli_run_failed", 1);
            return Ok(out);
        }
    };
    let js = match json::parse(&text) {
        Ok(j) => j,
        Err(e) => {
            out.violate(Violation::new("written-structure-invalid", 0, format!("exit status 0 but the written structure is not JSON ({}); fault = {}; argv {:?}", e, sc.fault, r.argv)));
            return Ok(out);
        }
    };
    let s = |p: &[&str]| js.path(p).and_then(|x| x.as_str()).map(|x| x.to_string());
    let lj = sc.potential.as_deref() == Some("LJ");
    if s(&["wallpaper", "name"]).as_deref() != Some(sc.group.as_str()) {
        out.violate(
            Violation::new("wrong-group-label", 0, format!("requested group {} but the written structure records wallpaper.name = {:?}; argv {:?}", sc.group, s(&["wallpaper", "name"]), r.argv))
                .sig("group", sc.group.clone()),
        );
    }
    let fam = family_of(&sc.group);
    if s(&["wallpaper", "family"]).as_deref() != Some(fam) || s(&["cell", "family"]).as_deref() != Some(fam) {
        out.violate(Violation::new(
            "wrong-family-label",
            0,
            format!("group {} is {} but the file records wallpaper.family {:?}, cell.family {:?}", sc.group, fam, s(&["wallpaper", "family"]), s(&["cell", "family"])),
        ));
    }
    // copies
    let sites = js.get("occupied_sites").and_then(|a| a.as_arr()).cloned().unwrap_or_default();
    let copies: usize = sites.iter().map(|st| st.path(&["wyckoff", "symmetries"]).and_then(|a| a.as_arr()).map(|a| a.len()).unwrap_or(0)).sum();
    if copies != order_of(&sc.group) {
        out.violate(Violation::new("wrong-number-of-copies", 0, format!("group {} has {} general positions but the file holds {} copies", sc.group, order_of(&sc.group), copies)));
    }
    // shape
    let items = js.path(&["shape", "items"]).and_then(|a| a.as_arr()).cloned().unwrap_or_default();
    let name = s(&["shape", "name"]).unwrap_or_default();
    match sc.shape.as_str() {
        "polygon" => {
            let want = sc.sides.unwrap_or(4) as usize;
            if items.len() != want || !name.to_lowercase().contains("polygon") {
                out.violate(Violation::new("wrong-shape", 0, format!("requested a polygon with {} sides; file has shape {:?} with {} edges", want, name, items.len())));
            }
        }
        "circle" => {
            let r0 = items.get(0).and_then(|i| i.get(if lj { "sigma" } else { "radius" })).and_then(|x| x.as_f64());
            if items.len() != 1 || r0 != Some(1.0) || !name.to_lowercase().contains("circle") {
                out.violate(Violation::new("wrong-shape", 0, format!("requested a circle; file has shape {:?} with {} items, size {:?}", name, items.len(), r0)));
            }
        }
        _ => {
            let (rad, ang, dist) = sc.trimer.unwrap_or((0.637556, 120.0, 1.0));
            let half = ang.to_radians() / 2.0;
            let want = [
                (0.0, -2.0 / 3.0 * dist * half.cos(), 1.0),
                (-dist * half.sin(), 1.0 / 3.0 * dist * half.cos(), rad),
                (dist * half.sin(), 1.0 / 3.0 * dist * half.cos(), rad),
            ];
            let mut ok = items.len() == 3 && name.to_lowercase().contains("trimer");
            if ok {
                for (it, w) in items.iter().zip(want.iter()) {
                    let x = it.path(&["position", "0"]).and_then(|v| v.as_f64());
                    let y = it.path(&["position", "1"]).and_then(|v| v.as_f64());
                    let size = if lj { it.get("sigma").and_then(|v| v.as_f64()).map(|s| s / 2.0) } else { it.get("radius").and_then(|v| v.as_f64()) };
                    match (x, y, size) {
                        (Some(x), Some(y), Some(sz)) => {
                            if (x - w.0).abs() > 1e-12 || (y - w.1).abs() > 1e-12 || (sz - w.2).abs() > 1e-12 {
                                ok = false;
                            }
                        }
                        _ => ok = false,
                    }
                }
            }
            if !ok {
                out.violate(Violation::new("wrong-shape", 0, format!("requested trimer radius {} angle {} distance {}; file has shape {:?} with {} items that do not match", rad, ang, dist, name, items.len())));
            }
        }
    }
    // logged score = score of the written file
    let rs = RepScenario {
        group: sc.group.clone(),
        shape: sc.shape.clone(),
        sides: 4,
        trimer: (0.0, 0.0, 0.0),
        lj,
        replicas: 1,
        steps: 1,
        inner_steps: 1,
        kt_start: 0.0,
        kt_finish: None,
        kt_ratio: None,
        max_step_size: 0.0,
        convergence: None,
        stale_output: false,
        out_fault: "none".into(),
        log_level: 0,
    };
    match (score_of_json(&rs, text.as_bytes()), r.final_score_text.as_ref().and_then(|t| t.parse::<f64>().ok())) {
        (Ok(Some(w)), Some(l)) => {
            if !rel_close(w, l) {
                out.violate(Violation::new("logged-score-differs", 0, format!("stderr says 'Final score: {:e}' but the written structure scores {:e}", l, w)));
            }
        }
        (Ok(None), _) => out.violate(Violation::new("written-structure-invalid", 0, "the written structure has no score when loaded".to_string())),
        (Err(e), _) => out.violate(Violation::new("written-structure-invalid", 0, e)),
        (_, None) => out.violate(Violation::new("logged-score-missing", 0, format!("no parsable 'Final score' line on stderr: {:?}", r.final_score_text))),
    }
    Ok(out)
}

impl Check for C10 {
    fn id(&self) -> &'static str {
        "C10"
    }
    fn rule(&self) -> String {
        "scenario i even (e3-replicas): group x shape x potential x settings, K = 2..8 (quick) / 2..12 (thorough); each replica index is run alone through the real analyse_state (single-index delivery) to obtain its score, then k = 1..K replications are run, each under a fresh seeded schedule / worker count / reduction-tree shape, and the written file is reloaded and scored. Scenario i odd (e4-cliproc): one execution of the shipped binary for a group x shape x potential x replications {1,2,5} from the swarm; labels, family, shape parameters, number of copies and the logged final score are compared with the request; 5 % of these scenarios instead run the binary twice with k1 < k2 replications (up to 200) and require the larger run not to score lower. All from splitmix(VERIF_SEED,'C10',i). Non-trivial: (e3) K >= 2 and some run had >= 2 active workers; (e4) any execution. Distinct: hash of outputs.".into()
    }
    fn runs(&self, tier: Tier) -> u64 {
        match tier {
            Tier::Quick => 800,
            Tier::Thorough => 12_000,
        }
    }
    fn budget_s(&self, tier: Tier) -> f64 {
        match tier {
            Tier::Quick => 240.0,
            Tier::Thorough => 1500.0,
        }
    }
    fn isolate(&self) -> bool {
        true
    }
    fn generate(&self, rng: &mut Rng, tier: Tier, i: u64) -> J {
        if i % 2 == 1 {
            return gen_e4(rng);
        }
        let kmax = match tier {
            Tier::Quick => 8,
            Tier::Thorough => 12,
        };
        let mut sc = gen_rep_scenario(rng, kmax);
        sc.replicas = rng.range_u64(2, kmax);
        sc.to_json()
            .set("mode", J::str("best-replica"))
            .set("workers", J::uint(*rng.pick(&[1u64, 2, 3, 4, 8, 16])))
            .set("yield_gap", J::uint(*rng.pick(&[0u64, 0, 1000, 100])))
            .set("sched_seed", J::uint(rng.below(1 << 40)))
    }
    fn execute(&self, j: &J) -> Result<RunOut, String> {
        // executions in which the simulator itself ran out of resources decide nothing
        let mut out = self.execute_inner(j)?;
        let before = out.violations.len();
        out.violations.retain(|v| !(v.class == "pipeline-panicked" && v.detail.contains("SIMULATOR-RESOURCES")));
        let dropped = (before - out.violations.len()) as u64;
        out.count("probe.executions_dropped_simulator_out_of_resources", dropped);
        Ok(out)
    }
    fn shrink(&self, j: &J) -> Vec<J> {
        match j.get("mode").and_then(|m| m.as_str()) {
            Some("labels") => {
                let sc = match CliScenario::from_json(j) {
                    Ok(s) => s,
                    Err(_) => return vec![],
                };
                let mut out = vec![];
                macro_rules! drop_opt {
                    ($f:ident) => {
                        if sc.$f.is_some() {
                            let mut c = sc.clone();
                            c.$f = None;
                            out.push(c.to_json().set("mode", J::str("labels")));
                        }
                    };
                }
                drop_opt!(kt_start);
                drop_opt!(kt_finish);
                drop_opt!(kt_ratio);
                drop_opt!(max_step_size);
                drop_opt!(inner_steps);
                drop_opt!(potential);
                if sc.replications != Some(1) {
                    let mut c = sc.clone();
                    c.replications = Some(1);
                    out.push(c.to_json().set("mode", J::str("labels")));
                }
                if sc.steps != Some(1) {
                    let mut c = sc.clone();
                    c.steps = Some(1);
                    out.push(c.to_json().set("mode", J::str("labels")));
                }
                if sc.shape != "circle" {
                    let mut c = sc.clone();
                    c.shape = "circle".into();
                    c.sides = None;
                    c.trimer = None;
                    out.push(c.to_json().set("mode", J::str("labels")));
                }
                out
            }
            _ => {
                let sc = match RepScenario::from_json(j) {
                    Ok(s) => s,
                    Err(_) => return vec![],
                };
                let extras = |base: J| -> J {
                    let mut b = base;
                    for k in ["mode", "workers", "yield_gap", "sched_seed"] {
                        if let Some(v) = j.get(k) {
                            b.put(k, v.clone());
                        }
                    }
                    b
                };
                let mut out = vec![];
                if sc.replicas > 2 {
                    let mut c = sc.clone();
                    c.replicas -= 1;
                    out.push(extras(c.to_json()));
                }
                if sc.steps > 10 {
                    let mut c = sc.clone();
                    c.steps /= 2;
                    out.push(extras(c.to_json()));
                }
                if sc.group != "p1" {
                    let mut c = sc.clone();
                    c.group = "p1".into();
                    out.push(extras(c.to_json()));
                }
                out
            }
        }
    }
    fn components_real(&self) -> Vec<&'static str> {
        let mut v = REAL.to_vec();
        v.push("the shipped `packing` binary built from /repo with the hook guard off (RAYON_NUM_THREADS=1) for the label part");
        v
    }
    fn components_stub(&self) -> Vec<&'static str> {
        STUB.to_vec()
    }
    fn assumptions(&self) -> Vec<String> {
        vec![
            "per-replica results come from the real pipeline run on one delivered index at a time (sim-rayon's single-index delivery), not from a copy of the stage recipe".into(),
            "scores are compared within 1e-12 relative (bit-exactness through JSON is C11's subject)".into(),
            "group family and order come from a small table inside the harness; shape parameters are recomputed from the command-line arguments".into(),
        ]
    }
    fn expected_probes(&self) -> Vec<&'static str> {
        vec!["probe.prefix_runs", "probe.scenarios_mixing_negative_and_positive_scores", "probe.executions_with_ge2_active_workers", "probe.reduction_tree_depth_ge2", "probe.cli_group/p1g1", "probe.cli_shape/trimer", "probe.cli_shape/polygon"]
    }
}

impl C10 {
    fn execute_inner(&self, j: &J) -> Result<RunOut, String> {
        match j.get("mode").and_then(|m| m.as_str()) {
            Some("labels") => exec_e4(j),
            Some("prefix-pair") => exec_e4_pair(j),
            _ => exec_e3(j),
        }
    }
}
