//! C11, replica-pipeline part: the pair of files the CLI writes.  "The SVG written next to it
//! places the shape at exactly the Cartesian transforms of that state": the JSON that
//! analyse_state wrote is read back, its SVG is regenerated through the library, and compared byte
//! for byte with the SVG that analyse_state wrote - under seeded schedules, worker counts, short
//! writes and pre-emption at file operations.

use crate::c09::add_stats;
use crate::pipeline::*;
use packing::traits::ToSVG;
use packing::{LJShape2, LineShape, MolecularShape2, PackedState2, PotentialState2};
use rayon::sim::SimConfig;
use sim_core::driver::{Check, RunOut, Tier, Violation};
use sim_core::json::{self, J};
use sim_core::prng::{Hasher64, Rng};

/// (target, transform) of every <use> element of an SVG document, in document order
fn use_elements(svg: &[u8]) -> Vec<(String, String)> {
    let text = String::from_utf8_lossy(svg);
    let mut out = vec![];
    let mut rest: &str = &text;
    while let Some(p) = rest.find("<use") {
        let tail = &rest[p..];
        let end = match tail.find('>') {
            Some(e) => e,
            None => break,
        };
        let tag = &tail[..end];
        rest = &tail[end..];
        let attr = |name: &str| -> Option<String> {
            let key = format!(" {}=\"", name);
            let s = tag.find(&key)? + key.len();
            let e = tag[s..].find('"')? + s;
            Some(tag[s..e].to_string())
        };
        out.push((attr("href").or_else(|| attr("xlink:href")).unwrap_or_default(), attr("transform").unwrap_or_default()));
    }
    out
}

pub struct C11e3;

fn regenerate(sc: &RepScenario, json: &[u8]) -> Result<(Vec<u8>, String), String> {
    let text = std::str::from_utf8(json).map_err(|e| e.to_string())?;
    let e = |x: serde_json::Error| format!("{}", x);
    let mut buf: Vec<u8> = vec![];
    let again = match (sc.shape.as_str(), sc.lj) {
        ("polygon", false) => {
            let s = serde_json::from_str::<PackedState2<LineShape>>(text).map_err(e)?;
            svg::write(&mut buf, &s.as_svg()).map_err(|e| e.to_string())?;
            serde_json::to_string(&s).map_err(|e| e.to_string())?
        }
        (_, false) => {
            let s = serde_json::from_str::<PackedState2<MolecularShape2>>(text).map_err(e)?;
            svg::write(&mut buf, &s.as_svg()).map_err(|e| e.to_string())?;
            serde_json::to_string(&s).map_err(|e| e.to_string())?
        }
        (_, true) => {
            let s = serde_json::from_str::<PotentialState2<LJShape2>>(text).map_err(e)?;
            svg::write(&mut buf, &s.as_svg()).map_err(|e| e.to_string())?;
            serde_json::to_string(&s).map_err(|e| e.to_string())?
        }
    };
    Ok((buf, again))
}

impl Check for C11e3 {
    fn id(&self) -> &'static str {
        "C11"
    }
    fn rule(&self) -> String {
        "replica-pipeline part: scenario i = group x shape x potential x settings x R = 2..5 replicas, W = 1..16 simulated workers, seeded schedule, short writes and pre-emption at every file create/write of main.rs; per scenario K executions of the real analyse_state; after each the written JSON is read back, its SVG regenerated and compared byte for byte with the written SVG, and the JSON re-serialised. A quarter of the scenarios put a directory or a /dev/full symlink where the JSON or the SVG is to be written: an execution that then reports success must still have written both files. Non-trivial: an execution had >= 2 active workers or a short write. Distinct: hash of the written files and schedule statistics.".into()
    }
    fn runs(&self, tier: Tier) -> u64 {
        match tier {
            Tier::Quick => 96,
            Tier::Thorough => 4_000,
        }
    }
    fn budget_s(&self, tier: Tier) -> f64 {
        match tier {
            Tier::Quick => 60.0,
            Tier::Thorough => 600.0,
        }
    }
    fn isolate(&self) -> bool {
        true
    }
    fn generate(&self, rng: &mut Rng, tier: Tier, _i: u64) -> J {
        let mut sc = gen_rep_scenario(rng, 5);
        sc.replicas = rng.range_u64(2, 5);
        sc.steps = *rng.pick(&[0u64, 1, 20, 50]);
        if rng.chance(0.25) {
            sc.out_fault = rng.pick(&["eisdir-json", "eisdir-svg", "enospc-json", "enospc-svg"]).to_string();
        }
        sc.to_json()
            .set("workers", J::uint(*rng.pick(&[2u64, 2, 3, 4, 8, 16])))
            .set("yield_gap", J::uint(*rng.pick(&[0u64, 1000, 100])))
            .set("sched_seed", J::uint(rng.below(1 << 40)))
            .set("schedules", J::uint(match tier {
                Tier::Quick => 4,
                Tier::Thorough => 8,
            }))
    }
    fn execute(&self, j: &J) -> Result<RunOut, String> {
        let sc = RepScenario::from_json(j)?;
        let workers = j.get("workers").and_then(|x| x.as_u64()).unwrap_or(2) as usize;
        let yield_gap = j.get("yield_gap").and_then(|x| x.as_u64()).unwrap_or(0);
        let k = j.get("schedules").and_then(|x| x.as_u64()).unwrap_or(4) as usize;
        let seed = j.get("sched_seed").and_then(|x| x.as_u64()).unwrap_or(0);
        let mut out = RunOut::default();
        let mut h = Hasher64::new();
        let cfg = SimConfig { workers, reference: false, yield_gap, deliver: None, deliver_expect: 0, max_leaf: 1 };
        let results = match run_pipeline(&sc, &cfg, &Sched::Random(seed), k) {
            Ok(r) => r,
            Err(p) => {
                if !is_resource_panic(&p) {
                    out.violate(Violation::new("pipeline-panicked", 0, format!("execution with {} workers panicked: {}", workers, p)));
                }
                return Ok(out);
            }
        };
        for (it, r) in results.iter().enumerate() {
            h.u64(r.hash());
            h.u64(r.stats.short_writes);
            h.u64(r.stats.steals_from_back);
            add_stats(&mut out, &r.stats);
            out.sim_steps += sc.replicas * (1000 + 2 * sc.steps);
            if r.stats.workers_that_ran_items >= 2 || r.stats.short_writes > 0 {
                out.nontrivial = true;
            }
            if sc.out_fault != "none" {
                out.count(&format!("fault.F-disk/{}", sc.out_fault), 1);
                out.count("probe.runs_that_failed_under_a_disk_fault", r.error.is_some() as u64);
            }
            if let Some(e) = &r.error {
                if e.starts_with("HARNESS") {
                    return Err(e.clone());
                }
                continue; // success or failure of the run is C20's subject
            }
            let (js, sv) = match (&r.json, &r.svg) {
                (Some(a), Some(b)) => (a, b),
                (a, b) => {
                    // analyse_state reported success: the structure and its picture must both be there
                    out.violate(Violation::new(
                        "cli-success-without-the-pair",
                        it as u64,
                        format!("schedule {}: analyse_state returned Ok but the JSON file is {} and the SVG file is {} (output path fault: {})", it, if a.is_some() { "present" } else { "missing" }, if b.is_some() { "present" } else { "missing" }, sc.out_fault),
                    ));
                    continue;
                }
            };
            match regenerate(&sc, js) {
                Err(e) => out.violate(Violation::new(
                    "cli-json-does-not-load",
                    it as u64,
                    format!("schedule {}: the structure file written by analyse_state cannot be read back: {}", it, e),
                )),
                Ok((svg_again, json_again)) => {
                    // (the tool is free to lay the file out as it likes - pretty or compact -; what
                    // must agree is the content: same keys in the same order, same number tokens)
                    let same_content = match (std::str::from_utf8(js).ok().and_then(|t| json::parse(t).ok()), json::parse(&json_again).ok()) {
                        (Some(a), Some(b)) => a == b,
                        _ => false,
                    };
                    if !same_content {
                        out.violate(Violation::new("cli-json-reserialisation-differs", it as u64, format!("schedule {}: reading the written JSON back and writing it again gives other bytes", it)));
                    }
                    // (what must agree is where things are placed - the <use> elements with their
                    // targets and transforms, in order -, not the bytes around them: an XML
                    // declaration, a trailing newline or other packaging is the tool's business)
                    if &svg_again[..] != &sv[..] && use_elements(&svg_again) != use_elements(sv) {
                        out.violate(Violation::new(
                            "cli-svg-does-not-match-json",
                            it as u64,
                            format!(
                                "schedule {} ({} workers): the SVG written next to the JSON is not the SVG of the structure in that JSON ({} vs {} bytes)",
                                it, workers, sv.len(), svg_again.len()
                            ),
                        ));
                    }
                }
            }
            out.count("probe.cli_file_pairs_checked", 1);
        }
        out.hash = h.finish();
        out.sample = Some(J::obj().set("executions", J::uint(results.len() as u64)));
        Ok(out)
    }
    fn components_real(&self) -> Vec<&'static str> {
        REAL.to_vec()
    }
    fn components_stub(&self) -> Vec<&'static str> {
        let mut v = STUB.to_vec();
        v.push("std::fs::File as seen by main.rs: a wrapper around the real file with pre-emption points and short writes");
        v
    }
    fn assumptions(&self) -> Vec<String> {
        vec!["the SVG is regenerated through the library's own as_svg (that as_svg is right is the library part of C11); what is checked here is that the two files written by one run belong together".into()]
    }
    fn expected_probes(&self) -> Vec<&'static str> {
        vec!["probe.runs_that_failed_under_a_disk_fault", "probe.cli_file_pairs_checked", "fault.F-shortwrite(file writes cut short by the simulated file)", "probe.executions_with_ge2_active_workers"]
    }
}
