//! simrep — the replica pipeline (unmodified /repo/src/main.rs) under a controlled scheduler
//! (engine E3), plus the process-level label checks of C10 (engine E4).

// The shipped pipeline, verbatim.  `#[paw::main] fn main` becomes a dead private function of this
// module; `analyse_state` is what the CLI runs for every shape/potential combination.
#[allow(dead_code, unused_imports)]
mod cli {
    // `std::sync` and `std::thread` as seen by main.rs are the simulator's: a lock, channel, atomic
    // or thread that the pipeline starts to use becomes a scheduling point of the controlled
    // scheduler instead of a real primitive the simulated threads could block on for ever.
    // Everything else in `std` is the real thing.  (If main.rs uses a std::sync item shuttle does
    // not model, this fails to build: exit 2, never a verdict.)
    #[allow(unused_imports)]
    mod std {
        pub use ::std::*;
        pub mod sync {
            pub use ::std::sync::*;
            pub use shuttle::sync::{atomic, mpsc, Barrier, BarrierWaitResult, Condvar, Mutex, MutexGuard, Once, OnceState, RwLock, RwLockReadGuard, RwLockWriteGuard, WaitTimeoutResult};
        }
        pub mod thread {
            pub use shuttle::thread::*;
        }
    }
    include!(concat!(env!("CARGO_MANIFEST_DIR"), "/../repo-link/src/main.rs"));

    pub fn run<S: State>(out: std::path::PathBuf, replicas: u64, state: S, opt: &BuildOptimiser) -> Result<(), Error> {
        analyse_state(out, replicas, state, opt)
    }
}

mod c09;
mod c10;
mod pipeline;

use sim_core::driver::{parse_options, run_check, Check};

fn pick(id: &str) -> Option<Box<dyn Check>> {
    match id {
        "C09" => Some(Box::new(c09::C09)),
        "C10" => Some(Box::new(c10::C10)),
        _ => None,
    }
}

fn main() {
    let args: Vec<String> = std::env::args().skip(1).collect();
    let (id, opts) = match parse_options(&args) {
        Ok(x) => x,
        Err(e) => {
            eprintln!("HARNESS-ERROR {}", e);
            std::process::exit(2);
        }
    };
    let check = match pick(&id) {
        Some(c) => c,
        None => {
            eprintln!("HARNESS-ERROR unknown property {}", id);
            std::process::exit(2);
        }
    };
    pipeline::init();
    let code = run_check(check.as_ref(), &opts);
    std::process::exit(code);
}
