//! simrep — the replica pipeline (unmodified /repo/src/main.rs) under a controlled scheduler
//! (engine E3), plus the process-level label checks of C10 (engine E4).

// The shipped pipeline, verbatim.  `#[paw::main] fn main` becomes a dead private function of this
// module; `analyse_state` is what the CLI runs for every shape/potential combination.
#[allow(dead_code, unused_imports)]
mod cli {
    // `std::sync` and `std::thread` as seen by main.rs are the simulator's: a lock, channel, atomic
    // or thread that the pipeline starts to use becomes a scheduling point of the controlled
    // scheduler instead of a real primitive the simulated threads could block on for ever.
    // Everything else in `std` is the real thing.  (If main.rs uses a std::sync item shuttle does
    // not model, this fails to build: exit 2, never a verdict.)
    #[allow(unused_imports)]
    mod std {
        pub use ::std::*;
        pub mod sync {
            pub use ::std::sync::*;
            pub use shuttle::sync::{atomic, mpsc, Barrier, BarrierWaitResult, Condvar, Mutex, MutexGuard, Once, OnceState, RwLock, RwLockReadGuard, RwLockWriteGuard, WaitTimeoutResult};
        }
        pub mod thread {
            pub use shuttle::thread::*;
        }
        // files opened through `std::fs::File` by main.rs: every create/open and every write is a
        // pre-emption point, and a write may be short (at most a seeded number of bytes go through
        // per call, which `write_all` must and does handle) - so two simulated workers writing the
        // same path interleave the way two real threads can
        pub mod fs {
            pub use ::std::fs::*;
            use ::std::io;
            use ::std::path::Path;

            fn pre_empt() {
                if rayon::sim::in_simulation() {
                    shuttle::thread::sleep(::std::time::Duration::from_millis(0));
                }
            }
            fn short(len: usize) -> usize {
                if len > 1 && rayon::sim::in_simulation() {
                    use shuttle::rand::Rng;
                    let cap = 1 + shuttle::rand::thread_rng().gen_range(0..512usize);
                    rayon::sim::with(|s| s.stats.short_writes += (cap < len) as u64);
                    len.min(cap)
                } else {
                    len
                }
            }

            pub struct File(::std::fs::File);
            impl File {
                pub fn create<P: AsRef<Path>>(path: P) -> io::Result<File> {
                    pre_empt();
                    ::std::fs::File::create(path).map(File)
                }
                pub fn open<P: AsRef<Path>>(path: P) -> io::Result<File> {
                    pre_empt();
                    ::std::fs::File::open(path).map(File)
                }
                pub fn create_new<P: AsRef<Path>>(path: P) -> io::Result<File> {
                    pre_empt();
                    ::std::fs::OpenOptions::new().write(true).create_new(true).open(path).map(File)
                }
                pub fn sync_all(&self) -> io::Result<()> {
                    pre_empt();
                    self.0.sync_all()
                }
                pub fn sync_data(&self) -> io::Result<()> {
                    pre_empt();
                    self.0.sync_data()
                }
                pub fn set_len(&self, size: u64) -> io::Result<()> {
                    pre_empt();
                    self.0.set_len(size)
                }
                pub fn metadata(&self) -> io::Result<::std::fs::Metadata> {
                    self.0.metadata()
                }
                pub fn try_clone(&self) -> io::Result<File> {
                    self.0.try_clone().map(File)
                }
                pub fn set_permissions(&self, perm: ::std::fs::Permissions) -> io::Result<()> {
                    self.0.set_permissions(perm)
                }
            }
            impl io::Write for File {
                fn write(&mut self, buf: &[u8]) -> io::Result<usize> {
                    pre_empt();
                    let n = short(buf.len());
                    io::Write::write(&mut self.0, &buf[..n])
                }
                fn flush(&mut self) -> io::Result<()> {
                    io::Write::flush(&mut self.0)
                }
            }
            impl io::Write for &File {
                fn write(&mut self, buf: &[u8]) -> io::Result<usize> {
                    pre_empt();
                    let n = short(buf.len());
                    io::Write::write(&mut &self.0, &buf[..n])
                }
                fn flush(&mut self) -> io::Result<()> {
                    io::Write::flush(&mut &self.0)
                }
            }
            impl io::Seek for File {
                fn seek(&mut self, pos: io::SeekFrom) -> io::Result<u64> {
                    io::Seek::seek(&mut self.0, pos)
                }
            }
            impl ::std::fmt::Debug for File {
                fn fmt(&self, f: &mut ::std::fmt::Formatter) -> ::std::fmt::Result {
                    self.0.fmt(f)
                }
            }
            impl ::std::os::unix::io::AsRawFd for File {
                fn as_raw_fd(&self) -> ::std::os::unix::io::RawFd {
                    self.0.as_raw_fd()
                }
            }
            /// `OpenOptions` whose `open` yields the simulated `File`
            #[derive(Clone, Debug)]
            pub struct OpenOptions(::std::fs::OpenOptions);
            impl OpenOptions {
                pub fn new() -> OpenOptions {
                    OpenOptions(::std::fs::OpenOptions::new())
                }
                pub fn read(&mut self, v: bool) -> &mut OpenOptions {
                    self.0.read(v);
                    self
                }
                pub fn write(&mut self, v: bool) -> &mut OpenOptions {
                    self.0.write(v);
                    self
                }
                pub fn append(&mut self, v: bool) -> &mut OpenOptions {
                    self.0.append(v);
                    self
                }
                pub fn truncate(&mut self, v: bool) -> &mut OpenOptions {
                    self.0.truncate(v);
                    self
                }
                pub fn create(&mut self, v: bool) -> &mut OpenOptions {
                    self.0.create(v);
                    self
                }
                pub fn create_new(&mut self, v: bool) -> &mut OpenOptions {
                    self.0.create_new(v);
                    self
                }
                pub fn open<P: AsRef<Path>>(&self, path: P) -> io::Result<File> {
                    pre_empt();
                    self.0.open(path).map(File)
                }
            }
            impl io::Read for File {
                fn read(&mut self, buf: &mut [u8]) -> io::Result<usize> {
                    pre_empt();
                    io::Read::read(&mut self.0, buf)
                }
            }
        }
    }
    include!(concat!(env!("CARGO_MANIFEST_DIR"), "/../repo-link/src/main.rs"));

    // (the bounds are those every state type of the crate satisfies: a pipeline that starts to
    // read states back, or to send them between threads, still builds here)
    pub fn run<S: State + serde::de::DeserializeOwned + serde::Serialize + Send + Sync + 'static>(out: std::path::PathBuf, replicas: u64, state: S, opt: &BuildOptimiser) -> Result<(), Error> {
        analyse_state(out, replicas, state, opt)
    }
}

mod c09;
mod c10;
mod c11;
mod pipeline;

use sim_core::driver::{parse_options, run_check, Check};

fn pick(id: &str) -> Option<Box<dyn Check>> {
    match id {
        "C09" => Some(Box::new(c09::C09)),
        "C10" => Some(Box::new(c10::C10)),
        "C11" => Some(Box::new(c11::C11e3)),
        _ => None,
    }
}

fn main() {
    let args: Vec<String> = std::env::args().skip(1).collect();
    let (id, opts) = match parse_options(&args) {
        Ok(x) => x,
        Err(e) => {
            eprintln!("HARNESS-ERROR {}", e);
            std::process::exit(2);
        }
    };
    let check = match pick(&id) {
        Some(c) => c,
        None => {
            eprintln!("HARNESS-ERROR unknown property {}", id);
            std::process::exit(2);
        }
    };
    pipeline::init();
    let code = run_check(check.as_ref(), &opts);
    std::process::exit(code);
}
