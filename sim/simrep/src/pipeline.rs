//! One simulated execution of the CLI's replica pipeline.

use packing::traits::State;
use packing::wallpaper::{get_wallpaper_group, WallpaperGroups};
use packing::{BuildOptimiser, LJShape2, LineShape, MolecularShape2, PackedState2, PotentialState2};
use rayon::sim::{self, SimConfig, SimStats};
use shuttle::scheduler::{PctScheduler, RandomScheduler};
use shuttle::{Config, FailurePersistence, MaxSteps, Runner};
use sim_core::json::J;
use sim_core::prng::Hasher64;
use std::cell::RefCell;
use std::path::PathBuf;
use std::sync::atomic::{AtomicU64, Ordering};
use std::sync::{Arc, Mutex};
use structopt::StructOpt;

pub const REAL: &[&str] = &[
    "/repo/src/main.rs::analyse_state, unmodified (include!), with the whole packing library underneath",
    "real files (serde_json + File::create/write_all, svg::save) in a per-run scratch directory",
    "packing::SharedValue access hook (--cfg packing_verif) as pre-emption and monitoring point",
];
pub const STUB: &[&str] = &[
    "rayon: sim-rayon (same package name) - workers are shuttle threads, splitting/stealing/hand-off decided by shuttle's seeded scheduler and RNG",
    "logger: capture logger behind the `log` facade (records 'Final score')",
];

// ---------------------------------------------------------------------------------------------

#[derive(Clone, Debug, PartialEq)]
pub struct RepScenario {
    pub group: String,
    /// "polygon" | "circle" | "trimer"
    pub shape: String,
    pub sides: usize,
    pub trimer: (f64, f64, f64),
    pub lj: bool,
    pub replicas: u64,
    pub steps: u64,
    pub inner_steps: u64,
    pub kt_start: f64,
    pub kt_finish: Option<f64>,
    pub kt_ratio: Option<f64>,
    pub max_step_size: f64,
    pub convergence: Option<f64>,
    /// F-stale: longer output files of an earlier run exist at the output path before every
    /// non-reference execution
    pub stale_output: bool,
    /// F-disk at the output path: "none" | "eisdir-json" | "eisdir-svg" | "enospc-json" |
    /// "enospc-svg" (a directory, or a symlink to /dev/full, sits where the file is to be written)
    pub out_fault: String,
    /// 0 = info (as the CLI without -v), 1 = debug, 2 = trace: the pipeline's debug!/trace!
    /// statements are then evaluated inside the simulated execution as well
    pub log_level: u64,
}

impl RepScenario {
    pub fn to_json(&self) -> J {
        J::obj()
            .set("engine", J::str("e3-replicas"))
            .set("group", J::str(self.group.clone()))
            .set("shape", J::str(self.shape.clone()))
            .set("sides", J::uint(self.sides as u64))
            .set("trimer", J::Arr(vec![J::f64bits(self.trimer.0), J::f64bits(self.trimer.1), J::f64bits(self.trimer.2)]))
            .set("potential", J::str(if self.lj { "LJ" } else { "Hard" }))
            .set("replicas", J::uint(self.replicas))
            .set("steps", J::uint(self.steps))
            .set("inner_steps", J::uint(self.inner_steps))
            .set("kt_start", J::f64bits(self.kt_start))
            .set("kt_finish", J::opt_f64bits(self.kt_finish))
            .set("kt_ratio", J::opt_f64bits(self.kt_ratio))
            .set("max_step_size", J::f64bits(self.max_step_size))
            .set("convergence", J::opt_f64bits(self.convergence))
            .set("stale_output", J::Bool(self.stale_output))
            .set("out_fault", J::str(self.out_fault.clone()))
            .set("log_level", J::uint(self.log_level))
    }
    pub fn from_json(j: &J) -> Result<RepScenario, String> {
        let f = |k: &str| j.get(k).and_then(|x| x.as_f64bits());
        let u = |k: &str| j.get(k).and_then(|x| x.as_u64());
        let t = j.get("trimer").and_then(|a| a.as_arr()).ok_or("trimer")?;
        Ok(RepScenario {
            group: j.get("group").and_then(|x| x.as_str()).ok_or("group")?.to_string(),
            shape: j.get("shape").and_then(|x| x.as_str()).ok_or("shape")?.to_string(),
            sides: u("sides").unwrap_or(4) as usize,
            trimer: (
                t.get(0).and_then(|x| x.as_f64bits()).ok_or("trimer0")?,
                t.get(1).and_then(|x| x.as_f64bits()).ok_or("trimer1")?,
                t.get(2).and_then(|x| x.as_f64bits()).ok_or("trimer2")?,
            ),
            lj: j.get("potential").and_then(|x| x.as_str()) == Some("LJ"),
            replicas: u("replicas").ok_or("replicas")?,
            steps: u("steps").ok_or("steps")?,
            inner_steps: u("inner_steps").ok_or("inner_steps")?,
            kt_start: f("kt_start").ok_or("kt_start")?,
            kt_finish: f("kt_finish"),
            kt_ratio: f("kt_ratio"),
            max_step_size: f("max_step_size").ok_or("max_step_size")?,
            convergence: f("convergence"),
            stale_output: j.get("stale_output").and_then(|x| x.as_bool()).unwrap_or(false),
            out_fault: j.get("out_fault").and_then(|x| x.as_str()).unwrap_or("none").to_string(),
            log_level: u("log_level").unwrap_or(0),
        })
    }

    pub fn builder(&self) -> Result<BuildOptimiser, String> {
        let mut b: BuildOptimiser = match self.kt_finish {
            Some(f) => {
                let mut b = BuildOptimiser::default();
                b.kt_finish(f);
                b
            }
            None => BuildOptimiser::from_iter_safe(&["opt"]).map_err(|e| format!("structopt: {}", e))?,
        };
        b.steps(self.steps)
            .inner_steps(self.inner_steps)
            .kt_start(self.kt_start)
            .kt_ratio(self.kt_ratio)
            .max_step_size(self.max_step_size)
            .convergence(self.convergence);
        Ok(b)
    }
}

pub fn gen_rep_scenario(rng: &mut sim_core::prng::Rng, max_replicas: u64) -> RepScenario {
    let lj = rng.chance(0.3);
    let shape = if lj { *rng.pick(&["circle", "trimer", "trimer"]) } else { *rng.pick(&["polygon", "polygon", "circle", "trimer"]) };
    let steps = *rng.pick(&[5u64, 20, 50, 100, 200]);
    RepScenario {
        group: rng.pick(&sim_core::cliproc::GROUPS).to_string(),
        shape: shape.to_string(),
        sides: rng.range_u64(3, 8) as usize,
        trimer: if rng.chance(0.5) {
            (0.637556, 120.0, 1.0)
        } else {
            ((rng.range_f64(0.4, 1.0) * 100.0).round() / 100.0, rng.range_f64(60.0, 180.0).round(), (rng.range_f64(1.0, 1.8) * 100.0).round() / 100.0)
        },
        lj,
        replicas: rng.range_u64(1, max_replicas),
        steps,
        inner_steps: *rng.pick(&[steps, steps / 2, 10, 1000]),
        // hot, coarse, short runs leave some replicas in bad (for LJ: negative-score) states
        kt_start: *rng.pick(&[0.1, 0.1, 1.0, 0.0, 10.0, 100.0]),
        kt_finish: *rng.pick(&[Some(0.001), None]),
        kt_ratio: *rng.pick(&[None, None, Some(0.1)]),
        // tiny steps make the replicas finish within 1e-6 .. 1e-4 of each other (near ties in the
        // final reduction)
        max_step_size: *rng.pick(&[0.01, 0.1, 0.2, 0.5, 1e-5, 3e-6, 1e-4]),
        convergence: *rng.pick(&[None, None, Some(1e-6)]),
        stale_output: rng.chance(0.3),
        out_fault: "none".into(),
        log_level: *rng.pick(&[0u64, 0, 0, 1, 2]),
    }
}

// ---------------------------------------------------------------------------------------------
// capture logger + hook installation (process-wide, once)

std::thread_local! {
    static LOG_LINES: RefCell<Vec<String>> = RefCell::new(Vec::new());
}

struct CaptureLogger;
impl log::Log for CaptureLogger {
    fn enabled(&self, _m: &log::Metadata) -> bool {
        true
    }
    fn log(&self, r: &log::Record) {
        // every enabled record is formatted (as env_logger would), info records are kept
        let line = format!("{}", r.args());
        if r.level() <= log::Level::Info {
            LOG_LINES.with(|l| l.borrow_mut().push(line));
        }
    }
    fn flush(&self) {}
}
static LOGGER: CaptureLogger = CaptureLogger;

fn hook(id: u64, write: bool) {
    sim::on_access(id, write);
}

pub fn init() {
    let _ = log::set_logger(&LOGGER);
    log::set_max_level(log::LevelFilter::Info);
    packing::verif_hooks::install(hook);
    // silence panic output of simulated threads; messages are collected from the payload
    if std::env::var("SIMREP_VERBOSE_PANIC").is_err() {
        std::panic::set_hook(Box::new(|_| {}));
    }
}

// ---------------------------------------------------------------------------------------------

#[derive(Clone, Debug)]
pub enum Sched {
    Random(u64),
    Pct(u64, usize),
}

#[derive(Clone, Debug, Default)]
pub struct PipeResult {
    pub json: Option<Vec<u8>>,
    pub svg: Option<Vec<u8>>,
    pub error: Option<String>,
    pub final_score_log: Option<String>,
    pub input_unchanged: bool,
    pub stats: SimStats,
}

impl PipeResult {
    pub fn hash(&self) -> u64 {
        let mut h = Hasher64::new();
        h.bytes(self.json.as_deref().unwrap_or(b"-"));
        h.bytes(self.svg.as_deref().unwrap_or(b"-"));
        h.bytes(self.error.as_deref().unwrap_or("").as_bytes());
        h.finish()
    }
}

static SCRATCH_COUNTER: AtomicU64 = AtomicU64::new(0);

fn scratch_dir() -> PathBuf {
    let base = std::env::var("VERIF_DIR").unwrap_or_else(|_| "/verif".to_string());
    let id = SCRATCH_COUNTER.fetch_add(1, Ordering::SeqCst);
    PathBuf::from(base).join("sim").join("scratch").join(format!("rep-{}-{}", std::process::id(), id))
}

fn run_once(sc: &RepScenario, dir: &PathBuf, stale: bool) -> PipeResult {
    // (scenarios run in their own process, so the process-wide level is this scenario's)
    log::set_max_level(match sc.log_level {
        0 => log::LevelFilter::Info,
        1 => log::LevelFilter::Debug,
        _ => log::LevelFilter::Trace,
    });
    let mut res = PipeResult::default();
    LOG_LINES.with(|l| l.borrow_mut().clear());
    let out = dir.join("out");
    if stale {
        let junk = vec![b'#'; 20_000];
        let _ = std::fs::write(out.with_extension("json"), &junk);
        let _ = std::fs::write(out.with_extension("svg"), &junk);
    }
    let (jp, sp) = (out.with_extension("json"), out.with_extension("svg"));
    let blocked: Option<&PathBuf> = match sc.out_fault.as_str() {
        "eisdir-json" | "enospc-json" => Some(&jp),
        "eisdir-svg" | "enospc-svg" => Some(&sp),
        _ => None,
    };
    if let Some(p) = blocked {
        let _ = std::fs::remove_file(p);
        if sc.out_fault.starts_with("eisdir") {
            let _ = std::fs::create_dir_all(p);
        } else {
            let _ = std::os::unix::fs::symlink("/dev/full", p);
        }
    }
    let builder = match sc.builder() {
        Ok(b) => b,
        Err(e) => {
            res.error = Some(format!("HARNESS: {}", e));
            return res;
        }
    };
    let group: WallpaperGroups = match sc.group.parse() {
        Ok(g) => g,
        Err(e) => {
            res.error = Some(format!("HARNESS: group {}", e));
            return res;
        }
    };
    let wg = match get_wallpaper_group(group) {
        Ok(w) => w,
        Err(e) => {
            res.error = Some(format!("HARNESS: {}", e));
            return res;
        }
    };
    // the same dispatch as main(): build the initial state from the arguments, hand a clone to the
    // pipeline, and compare the original's serialisation before and after
    macro_rules! go {
        ($state:expr) => {{
            match $state {
                Ok(state) => {
                    let before = serde_json::to_string(&state).unwrap_or_default();
                    let r = crate::cli::run(out.clone(), sc.replicas, state.clone(), &builder);
                    let after = serde_json::to_string(&state).unwrap_or_default();
                    res.input_unchanged = before == after;
                    if let Err(e) = r {
                        res.error = Some(format!("{}", e));
                    }
                }
                Err(e) => res.error = Some(format!("HARNESS: from_group: {}", e)),
            }
        }};
    }
    let (r, a, d) = sc.trimer;
    match (sc.shape.as_str(), sc.lj) {
        ("polygon", false) => match LineShape::polygon(sc.sides) {
            Ok(shape) => go!(PackedState2::from_group(shape, &wg)),
            Err(e) => res.error = Some(format!("HARNESS: polygon: {}", e)),
        },
        ("circle", false) => go!(PackedState2::from_group(MolecularShape2::circle(), &wg)),
        ("trimer", false) => go!(PackedState2::from_group(MolecularShape2::from_trimer(r, a, d), &wg)),
        ("circle", true) => go!(PotentialState2::from_group(LJShape2::circle(), &wg)),
        ("trimer", true) => go!(PotentialState2::from_group(LJShape2::from_trimer(r, a, d), &wg)),
        _ => res.error = Some("HARNESS: unsupported shape/potential".into()),
    }
    let regular = |p: &PathBuf| std::fs::symlink_metadata(p).map(|m| m.file_type().is_file()).unwrap_or(false);
    res.json = if regular(&jp) { std::fs::read(&jp).ok() } else { None };
    res.svg = if regular(&sp) { std::fs::read(&sp).ok() } else { None };
    if let Some(p) = blocked {
        let _ = std::fs::remove_dir_all(p);
        let _ = std::fs::remove_file(p);
    }
    res.final_score_log = LOG_LINES.with(|l| {
        l.borrow().iter().filter_map(|x| x.strip_prefix("Final score: ").map(|s| s.trim().to_string())).last()
    });
    let _ = std::fs::remove_file(out.with_extension("json"));
    let _ = std::fs::remove_file(out.with_extension("svg"));
    res
}

/// Run the pipeline `iterations` times, each under a fresh seeded schedule.
/// Err = the simulated execution panicked (message).
pub fn run_pipeline(sc: &RepScenario, cfg: &SimConfig, sched: &Sched, iterations: usize) -> Result<Vec<PipeResult>, String> {
    let dir = scratch_dir();
    std::fs::create_dir_all(&dir).map_err(|e| format!("scratch: {}", e))?;
    let results: Arc<Mutex<Vec<PipeResult>>> = Arc::new(Mutex::new(Vec::new()));
    let mut config = Config::new();
    config.stack_size = 1 << 20;
    config.max_steps = MaxSteps::None;
    config.failure_persistence = FailurePersistence::None;
    config.silence_warnings = true;
    let sc2 = sc.clone();
    let cfg2 = cfg.clone();
    let dir2 = dir.clone();
    let results2 = results.clone();
    let body = move || {
        sim::configure(cfg2.clone(), true);
        sim::enter_simulation();
        let mut r = run_once(&sc2, &dir2, sc2.stale_output && !cfg2.reference);
        sim::leave_simulation();
        r.stats = sim::take_stats();
        sim::configure(SimConfig::default(), false);
        results2.lock().unwrap().push(r);
    };
    // PCT needs at least two simultaneously runnable simulated threads (it asserts "did exercise
    // concurrency"); with a single worker there are none, so fall back to the random scheduler
    let sched = match sched {
        Sched::Pct(seed, _) if cfg.workers < 2 || cfg.reference => Sched::Random(*seed),
        other => other.clone(),
    };
    let outcome = std::panic::catch_unwind(std::panic::AssertUnwindSafe(|| match &sched {
        Sched::Random(seed) => {
            Runner::new(RandomScheduler::new_from_seed(*seed, iterations), config).run(body);
        }
        Sched::Pct(seed, depth) => {
            Runner::new(PctScheduler::new_from_seed(*seed, *depth, iterations), config).run(body);
        }
    }));
    sim::leave_simulation();
    sim::configure(SimConfig::default(), false);
    let _ = std::fs::remove_dir_all(&dir);
    match outcome {
        Ok(()) => Ok(Arc::try_unwrap(results).map(|m| m.into_inner().unwrap()).unwrap_or_else(|a| a.lock().unwrap().clone())),
        Err(p) => {
            let msg = if let Some(s) = p.downcast_ref::<&str>() {
                s.to_string()
            } else if let Some(s) = p.downcast_ref::<String>() {
                s.clone()
            } else {
                "panic".to_string()
            };
            if msg.contains("Cannot allocate memory") || msg.contains("OutOfMemory") {
                // the simulator itself ran out of continuation stacks / mappings: nothing can be
                // concluded from this execution
                return Err(format!("SIMULATOR-RESOURCES: {}", msg));
            }
            Err(msg)
        }
    }
}

/// a panic message that stems from the simulator's own resource limits, not from the code under test
pub fn is_resource_panic(msg: &str) -> bool {
    msg.starts_with("SIMULATOR-RESOURCES")
}

pub fn reference_cfg() -> SimConfig {
    SimConfig { workers: 1, reference: true, yield_gap: 0, deliver: None, deliver_expect: 0, max_leaf: 0 }
}

/// score of a structure file written by the pipeline (typed reload through serde_json)
pub fn score_of_json(sc: &RepScenario, bytes: &[u8]) -> Result<Option<f64>, String> {
    let text = std::str::from_utf8(bytes).map_err(|e| e.to_string())?;
    let e = |x: serde_json::Error| format!("written JSON does not load: {}", x);
    Ok(match (sc.shape.as_str(), sc.lj) {
        ("polygon", false) => serde_json::from_str::<PackedState2<LineShape>>(text).map_err(e)?.score(),
        (_, false) => serde_json::from_str::<PackedState2<MolecularShape2>>(text).map_err(e)?.score(),
        (_, true) => serde_json::from_str::<PotentialState2<LJShape2>>(text).map_err(e)?.score(),
    })
}
