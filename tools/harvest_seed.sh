#!/bin/bash
# tools/harvest_seed.sh <SEED-ID> <PROPERTY> [worktree]
# Collects a sub-agent's property-breaking change from its scratch worktree into
# /verif/seeded/<SEED-ID>/ (patch.diff + demonstration), confirms in that worktree that
#   - the existing suite passes with the change,
#   - the demonstration fails with the change and passes without it,
# then applies the patch to /repo, runs the property's quick check, and restores /repo.
# Writes /verif/seeded/<SEED-ID>/verify.log; meta.json is written by hand afterwards.
set -u
ID="$1"; PROP="$2"; WT="${3:-/tmp/wt-$PROP}"
OUT=/verif/seeded/$ID
mkdir -p "$OUT"
export CARGO_NET_OFFLINE=true CARGO_TARGET_DIR="$WT/target"
cd "$WT" || exit 2
git diff -- src Cargo.toml benches > "$OUT/patch.diff"
if [ ! -s "$OUT/patch.diff" ]; then echo "no source change in $WT"; exit 2; fi
DEMOS=$(git status --porcelain | grep '^??' | awk '{print $2}' | grep -E '^(tests|examples)/' )
for d in $DEMOS; do cp -r "$WT/$d" "$OUT/"; done
LOG="$OUT/verify.log"; : > "$LOG"
echo "== patch: $(grep -c '^[-+][^-+]' "$OUT/patch.diff") changed lines; demos: $DEMOS" | tee -a "$LOG"
DEMO_TESTS=""; for d in $DEMOS; do case "$d" in tests/*.rs) DEMO_TESTS="$DEMO_TESTS --test $(basename "$d" .rs)";; esac; done
echo "== existing suite with the change" | tee -a "$LOG"
cargo test --offline --lib --bins --test packing --test potential 2>&1 | grep -E "^test result|FAILED|error(\[|:)" | tee -a "$LOG"
if [ -n "$DEMO_TESTS" ]; then
  echo "== demonstration WITH the change (expected: fails)" | tee -a "$LOG"
  cargo test --offline $DEMO_TESTS 2>&1 | grep -E "^test result|^test .*(FAILED|ok)$|error(\[|:)" | tee -a "$LOG"
  git apply -R "$OUT/patch.diff"
  echo "== demonstration WITHOUT the change (expected: passes)" | tee -a "$LOG"
  cargo test --offline $DEMO_TESTS 2>&1 | grep -E "^test result|^test .*(FAILED|ok)$|error(\[|:)" | tee -a "$LOG"
  git apply "$OUT/patch.diff"
fi
echo "== /verif check $PROP quick against /repo + patch" | tee -a "$LOG"
if [ -n "$(git -C /repo status --porcelain --untracked-files=no)" ]; then echo "/repo dirty, not applying" | tee -a "$LOG"; exit 2; fi
git -C /repo apply "$OUT/patch.diff" || { echo "patch does not apply to /repo" | tee -a "$LOG"; exit 2; }
( cd /verif && env -u CARGO_TARGET_DIR ./check "$PROP" quick ) > "$OUT/check.out" 2>&1
rc=$?
git -C /repo checkout -- .
echo "check exit=$rc" | tee -a "$LOG"
grep -E "^(VIOLATION|KNOWN-FINDING|DONE|HARNESS)" "$OUT/check.out" | cut -c1-400 | tee -a "$LOG"
for f in /verif/replay/*.json; do [ -e "$f" ] && mv "$f" "$OUT/" ; done 2>/dev/null
exit 0
