#!/usr/bin/env python3
"""merge_evidence.py <part1.json> <part2.json> <out.json>: one evidence file for a check that ran
two engines in two binaries (C11: library part + replica-pipeline part).  Counts are summed, samples
concatenated, every counter map merged; each part's full coverage is kept under coverage.parts."""
import json, sys
a = json.load(open(sys.argv[1])); b = json.load(open(sys.argv[2]))
ca, cb = a["coverage"], b["coverage"]
out = dict(a)
cov = dict(ca)
for k in ("evaluations", "distinct_nontrivial", "nontrivial_runs", "distinct_histories_all", "planned_runs", "sim_steps", "unlisted_violations_total"):
    cov[k] = ca.get(k, 0) + cb.get(k, 0)
cov["rule"] = ca.get("rule", "") + " || " + cb.get("rule", "")
cov["samples"] = ca.get("samples", []) + cb.get("samples", [])
for k in ("faults_fired", "probes", "counters"):
    m = dict(ca.get(k, {}))
    for kk, v in cb.get(k, {}).items():
        m[kk] = m.get(kk, 0) + v
    cov[k] = m
for k in ("components_real", "components_stub", "warnings", "violations_reported", "known_findings_matched"):
    cov[k] = list(ca.get(k, [])) + [x for x in cb.get(k, []) if x not in ca.get(k, [])]
cov["batch_hash"] = ca.get("batch_hash", "") + "+" + cb.get("batch_hash", "")
wall = a.get("wall_s", 0) + b.get("wall_s", 0)
cov["runs_per_hour"] = round(cov["evaluations"] / max(wall, 1e-9) * 3600)
cov["seeds_per_hour"] = cov["runs_per_hour"]
cov["parts"] = {"library (e2-crystal, simcheck)": {k: ca.get(k) for k in ("evaluations", "distinct_nontrivial", "sim_steps", "batch_hash")},
                "replica pipeline (e3-replicas, simrep)": {k: cb.get(k) for k in ("evaluations", "distinct_nontrivial", "sim_steps", "batch_hash")}}
out["coverage"] = cov
out["assumptions"] = list(a.get("assumptions", [])) + [x for x in b.get("assumptions", []) if x not in a.get("assumptions", [])]
out["wall_s"] = round(wall, 3)
out["violations"] = a.get("violations", 0) + b.get("violations", 0)
json.dump(out, open(sys.argv[3], "w"), indent=1)
