#!/usr/bin/env python3
"""Regenerates /verif/MANIFEST.json from the table below (single source of truth for the
per-check texts).  Usage: python3 tools/mk_manifest.py"""
import json, os, subprocess

HERE = os.path.dirname(os.path.dirname(os.path.abspath(__file__)))

BUILT = ["C01", "C04", "C05", "C06", "C07", "C08", "C09", "C10", "C11", "C18", "C19", "C20"]

TECH = "deterministic simulation with fault injection: seeded search over scenarios/histories/faults, invariants checked during each run and over the recorded history"

CHECKS = {
    "C01": dict(engine="e2-crystal", cat="exploration", ref="DESIGN.md 5.C01",
        text="Real optimiser histories on real hard-shape crystal states (all 7 groups, polygons, circle, trimers), chained stages with special-position writes and JSON restarts as injected faults; packings bisected down to contact and nudged by 1e-7..1e-3 (F-contact); at every score() call that returns Some an exhaustive-lattice exact-geometry oracle looks for overlapping copies at any image distance. Evidence over the states visited, not a proof.",
        note="trusts the harness's own SAT / disc-distance geometry and the state's cartesian_positions() as the placements (that they are the right placements is C04/C15)"),
    "C04": dict(engine="e2-crystal", cat="exploration", ref="DESIGN.md 5.C04",
        text="At every state scored along real optimisation histories (drift, clamps, restarts; hard and LJ; chiral shapes) the set of placed shapes is checked for invariance under an independent table of the group's operations mapped to Cartesian space, and each operation is checked to be orthogonal for the current cell. Every 50th run executes the shipped binary (plain, over stale output files, or handed a valid --start-config saved for another group), loads the JSON it wrote and holds it to the table of the group named on the command line.",
        note="independent group table written from International Tables A inside the harness; tolerance 1e-9 relative to cell size"),
    "C05": dict(engine="e1-landscape + e2-crystal", cat="exploration", ref="DESIGN.md 5.C05",
        text="kt_start = 0 crossed with the whole configuration swarm (kt_finish, kt_ratio, 1..100 inner loops, step sizes, convergence) on scripted landscapes and real hard/LJ crystals: returned score >= input score, and no explanation-consistent history contains an accepted strictly-worse move.",
        note="decisions are inferred from the parameter vectors seen by score(); a violation needs every consistent explanation to contain a decrease"),
    "C06": dict(engine="e1-landscape (+ e2-crystal)", cat="exploration", ref="DESIGN.md 5.C06",
        text="Hypothesis-tracked histories of the real optimiser on scripted landscapes (accept probability swept 0..1, n = 1..64 parameters, bounds, zero-width ranges, many inner loops): every observation must be a <=1-parameter move from the proposal or from the bit-exact pre-proposal state, and the returned object must be the last accepted state; on real crystal states evaluating score() must leave every parameter as it was.",
        note="public-API observation only; ambiguity between explanations can hide a bug for a step but never raises an alarm"),
    "C07": dict(engine="e1-landscape", cat="exploration", ref="DESIGN.md 5.C07",
        text="Deterministic Metropolis clauses on every step of scripted histories (better => accepted, None => rejected, equal => accepted, kT=0 & worse => rejected) plus acceptance frequencies of exact-d downhill trials against exp(-d/kT) with Hoeffding bounds (false-alarm probability < 1e-12 per invocation).",
        note="temperature is held constant with kt_ratio = 0 (cooling factor 1) for the frequency clause"),
    "C08": dict(engine="e2-crystal", cat="exploration", ref="DESIGN.md 5.C08",
        text="Chains of 1..4 real optimisation stages on all groups x shapes x potentials with clamp and restart faults between stages: at every stage boundary and every score() call parameters lie in the declared ranges, the cell stays in its family, the score is Some and finite, no parameter is NaN or infinite (checked before the state is handed to the real score()); every group x shape starts valid. 1 % of the scenarios use polygons of circumradius 1e-3 ('any shape of well-defined area'): open known finding F1.",
        note="ranges are taken from the property text, re-derived per stage from the values at the start of that stage"),
    "C09": dict(engine="e3-replicas (shuttle + sim-rayon)", cat="exploration", ref="DESIGN.md 5.C09",
        text="The unmodified src/main.rs replica pipeline runs on a simulated rayon whose workers are shuttle threads: output bytes are compared with the one-worker reference across seeded schedules, 1..16 workers, repeats and restarts; single-index delivery gives per-replica results; a monitor on SharedValue accesses looks for unsynchronised cross-replica access; the shipped binary is compared across 1..16 threads, over junk output files and over the result of an earlier, longer run at the same path.",
        note="rayon is a stub (sim-rayon, patched in for the library as well); main.rs sees shuttle's std::sync/std::thread through a shim; schedules are sampled by shuttle's seeded random/PCT schedulers, not enumerated; every scenario runs in a fresh child process"),
    "C10": dict(engine="e3-replicas + e4-cliproc", cat="exploration", ref="DESIGN.md 5.C10",
        text="Per-replica results obtained from the real pipeline through single-index delivery are compared with what the full run writes (max, prefix monotone in k, logged score = score of the written file) under varying reduction trees; the shipped binary is run over group x shape x potential x replications and its JSON labels/family/shape/copies compared with the request, also over stale output files and when handed a valid --start-config saved for another group; 5 % of the process scenarios run the binary twice with k1 < k2 <= 200 replications (the larger run must not score lower).",
        note="sim-rayon stub for the in-process part; the process part uses the shipped binary with RAYON_NUM_THREADS=1"),
    "C11": dict(engine="e2-crystal + e3-replicas", cat="exploration", ref="DESIGN.md 5.C11, 12.5",
        text="Crash/restart through the only durable state: at stage boundaries and mid-stage snapshots of real optimisation chains the state is serialised, dropped, deserialised and continued; scores, placements, re-serialisation and the continued optimisation must be bit-identical. The written SVG's <use> matrices must equal the Cartesian transforms and their 8 nearest images. A second part runs the real analyse_state under seeded schedules with pre-emption and short writes at its file operations, reads the written JSON back and requires the SVG written next to it to be byte-identical to the SVG regenerated from that JSON; with a directory or a /dev/full symlink at one of the two output paths an execution that reports success must still have written the pair.",
        note="uses serde_json exactly as /repo configures it (the harness adds no serde_json features)"),
    "C18": dict(engine="e1-landscape", cat="exploration", ref="DESIGN.md 5.C18",
        text="Per-inner-loop temperature inferred from acceptance frequencies of exact-d downhill trials on staircase landscapes (pooled over seeds, Hoeffding intervals): constancy within a loop, one geometric factor, (1-kt_ratio) or the factor reaching kt_finish within one cooling step, kT=0 stays 0; kt_start down to 1e-14; schedules of 2^32..2^40 loops observed through their first six.",
        note="statistical: each interval holds with probability 1-1e-15; sampling configurations, not all reals"),
    "C19": dict(engine="e1-landscape + e2-crystal", cat="exploration", ref="DESIGN.md 5.C19, 12.5",
        text="Every proposal of hypothesis-tracked histories (rejection rates pinned to 0 %, 100 % and in between, scripted collapse-and-recovery streaks of up to 1100 rejections, up to 100 inner loops, ranges 1e-6..1e6) must differ from a possible pre-proposal state in <= 1 parameter by <= max_step_size*range/2; every 10th run tracks a chain of stages on a real crystal and compares each move with the declared range of the parameter it belongs to.",
        note="rounding allowance 1e-12 relative + 4 ulp"),
    "C20": dict(engine="e1-landscape + e4-cliproc", cat="fault_enumeration", ref="DESIGN.md 5.C20",
        text="Degenerate run lengths (0, 1, non-multiples, inner > steps), all landscapes and temperatures under catch_unwind: no panic, proposal count within [steps - inner, steps], convergence twin-run prefix property; inverted parameter ranges; 'run until converged' (steps up to 2^64-1 with a threshold every loop meets, executed in a process of its own with a capped address space: must equal the six-loop run; a dead or endless process is a violation); the shipped binary under argument and disk faults (ENOENT, ENOTDIR, EISDIR, ENOSPC) must exit 0 with both files or non-zero with an error message, never 101.",
        note="finite list of fault kinds crossed with a seeded swarm; disk faults injected through the file namespace (/dev/full symlinks, missing/regular-file parents)"),
}

NA = {
    "C02": "pure function of (shape, cell): no schedule, history, fault, clock or I/O in it; deterministic simulation has nothing to sample (DESIGN.md 6)",
    "C03": "pure function of one state; 'equivalent re-descriptions' are input transformations, not histories or faults (DESIGN.md 6)",
    "C12": "pure predicate on two placed shapes (its history-reachable failure class is seen by C01's monitor) (DESIGN.md 6)",
    "C13": "pure function of two particles (DESIGN.md 6)",
    "C14": "pure functions of a cell (DESIGN.md 6)",
    "C15": "pure function of (group, site parameters); edge values are inputs, not faults (DESIGN.md 6)",
    "C16": "seven constant tables: the right check is exhaustive enumeration, which is not simulation (DESIGN.md 6)",
    "C17": "pure function of a string (DESIGN.md 6)",
}

def main():
    repo_commits = subprocess.run(["git", "-C", "/repo", "log", "--format=%h %s"], capture_output=True, text=True).stdout.strip().splitlines()
    hook_commits = [l.split()[0] for l in repo_commits if l.split(" ", 1)[1].startswith("verif-hook:")]
    checks = []
    for pid in sorted(CHECKS):
        if pid not in BUILT:
            continue
        c = CHECKS[pid]
        checks.append({
            "property_id": pid,
            "quick_cmd": f"./check {pid} quick",
            "thorough_cmd": f"./check {pid} thorough",
            "evidence_file": f"/verif/evidence/{pid}.json",
            "replay_cmd_template": f"./check {pid} --replay {{path}}",
            "engine": c["engine"],
            "level_claimed": {"category": c["cat"], "text": c["text"], "design_ref": c["ref"]},
            "level_note": c["note"],
            "technique": TECH,
        })
    na = [{"property_id": k, "reason": v} for k, v in sorted(NA.items())]
    for pid in sorted(CHECKS):
        if pid not in BUILT:
            na.append({"property_id": pid, "reason": "planned as a simulation target (DESIGN.md 5) but its check is not built yet at this commit; not claimed until it is"})
    na.sort(key=lambda e: e["property_id"])
    m = {
        "version": 1,
        "setup_cmd": "./setup.sh",
        "hooks": {
            "guard": "--cfg packing_verif",
            "enable": "RUSTFLAGS-equivalent in /verif/sim/.cargo/config.toml ([build] rustflags = [\"--cfg\", \"packing_verif\"]) applies to the harness build, which compiles /repo as a path dependency; the shipped binary used by the process-level checks is built from /repo without it",
            "baseline_off_cmd": "cd /repo && cargo test --workspace --no-fail-fast --offline --lib --bins --tests",
            "source_commits": hook_commits,
            "add_only": True,
        },
        "engines": [
            {"name": "e1-landscape", "path": "sim/simcheck/src/e1", "serves_properties": ["C05", "C06", "C07", "C18", "C19", "C20"], "kind_free_text": "real optimiser on a scripted State (stub environment), hypothesis-tracked histories"},
            {"name": "e2-crystal", "path": "sim/simcheck/src/e2", "serves_properties": ["C01", "C04", "C05", "C06", "C08", "C11", "C19"], "kind_free_text": "real crystal states behind a monitoring wrapper; stage chains with clamp/special-position/restart faults"},
            {"name": "e3-replicas", "path": "sim/simrep", "serves_properties": ["C09", "C10", "C11"], "kind_free_text": "unmodified src/main.rs pipeline on a simulated rayon (shuttle threads) with shuttle std::sync/thread and a pre-empting, short-writing std::fs::File; seeded schedules; one fresh process per scenario"},
            {"name": "e4-cliproc", "path": "sim/core/src/cliproc.rs", "serves_properties": ["C04", "C09", "C10", "C20"], "kind_free_text": "shipped binary under argument and file-namespace faults (ENOENT, ENOTDIR, EISDIR, ENOSPC, stale output files, a start configuration saved for another group, astronomically large --steps), -v flags, 1..16 real rayon threads, 4 GiB address space, 5 min time limit"},
        ],
        "checks": checks,
        "not_applicable": na,
        "notes": "All checks: exit 0 = held on everything explored (KNOWN-FINDING lines possible), 1 = VIOLATION line with replay file, 2 = harness/build error. VERIF_SEED (default 20260917) decides every run. Known findings: /verif/known_findings.json (R1-R11 fixed in /repo by 'fix:' commits; one open finding, F1, on C08 - see DESIGN.md 13). Sensitivity: selftest/mutants.py (37 mutants) and seeded/ (104 independently written breaking changes in 9 rounds, DESIGN.md 12). Silence on correct code: benign/ (32 independently written property-preserving changes, DESIGN.md 12.9). See DESIGN.md.",
    }
    with open(os.path.join(HERE, "MANIFEST.json"), "w") as f:
        json.dump(m, f, indent=1)
        f.write("\n")
    print("wrote MANIFEST.json with", len(checks), "checks")

if __name__ == "__main__":
    main()
