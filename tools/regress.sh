#!/bin/bash
cd /verif
for s in $(ls seeded | sort); do ./tools/test_seed.sh $s 2>&1 | head -1 | cut -c1-170; done
python3 selftest/mutants.py 2>&1 | cut -c1-150
echo REGRESSION-DONE
