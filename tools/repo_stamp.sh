#!/bin/bash
# sourced by check and setup.sh
# repo_sha <repo>: hash over everything of the repository that the builds read
repo_sha() {
  ( cd "$1" && { cat Cargo.toml Cargo.lock 2>/dev/null; find src build.rs -type f 2>/dev/null | LC_ALL=C sort | while read -r f; do echo "== $f"; cat "$f"; done; } | sha256sum | cut -d' ' -f1 )
}
# if the tree's content differs from what the target directory was last built from, the crate
# `packing` is removed from that target directory, which makes cargo rebuild it and its dependents
repo_stamp_harness() {
  local here="$1" repo="$2" sha stamp
  sha="$(repo_sha "$repo")"; stamp="$here/sim/target/.repo-sha"
  if [ -d "$here/sim/target" ] && [ "$(cat "$stamp" 2>/dev/null)" != "$sha" ]; then
    ( cd "$here/sim" && env -u CARGO_BUILD_TARGET_DIR CARGO_TARGET_DIR="$here/sim/target" cargo clean --release --offline -p packing ) >/dev/null 2>&1
  fi
  mkdir -p "$here/sim/target"; echo "$sha" > "$stamp"
}
repo_stamp_cli() {
  local here="$1" repo="$2" sha stamp
  sha="$(repo_sha "$repo")"; stamp="$here/sim/target-cli/.repo-sha"
  if [ -d "$here/sim/target-cli" ] && [ "$(cat "$stamp" 2>/dev/null)" != "$sha" ]; then
    ( cd "$repo" && env -u RUSTFLAGS -u CARGO_TARGET_DIR -u CARGO_BUILD_TARGET_DIR cargo clean --release --offline -p packing --target-dir "$here/sim/target-cli" ) >/dev/null 2>&1
  fi
  mkdir -p "$here/sim/target-cli"; echo "$sha" > "$stamp"
}
