#!/bin/bash
# tools/test_seed.sh <SEED-ID> [PROPERTY] [quick|thorough]
# Applies /verif/seeded/<SEED-ID>/patch.diff to /repo, runs the property's check, restores /repo.
set -u
ID="$1"; PROP="${2:-${ID%%-*}}"; TIER="${3:-quick}"
P=/verif/seeded/$ID/patch.diff
[ -s "$P" ] || { echo "no patch $P"; exit 2; }
if [ -n "$(git -C /repo status --porcelain --untracked-files=no)" ]; then echo "/repo dirty"; exit 2; fi
git -C /repo apply "$P" || { echo "patch does not apply"; exit 2; }
( cd /verif && env -u CARGO_TARGET_DIR -u RUSTFLAGS ./check "$PROP" "$TIER" ) > /verif/seeded/$ID/check-$PROP-$TIER.out 2>&1
rc=$?
git -C /repo checkout -- .
echo "$ID vs $PROP $TIER: exit=$rc $(grep -E '^VIOLATION-DETAIL' /verif/seeded/$ID/check-$PROP-$TIER.out | head -1 | cut -c1-260)"
grep -E "^(HARNESS|DONE)" /verif/seeded/$ID/check-$PROP-$TIER.out | head -2 | cut -c1-200
mkdir -p /verif/seeded/$ID/replay; for f in /verif/replay/*.json; do [ -e "$f" ] && mv "$f" /verif/seeded/$ID/replay/ ; done 2>/dev/null
exit 0
